import SdJwt.Impl.Issuer
/-! Issuer lemmas: totality on claims objects, error classification of unresolvable paths. -/
open Assoc Spec
namespace Impl

theorem hideIn_noPanic (mk : Option String → J → String) (key : String) (p : J) :
    (hideIn mk key p).NoPanic := by
  unfold hideIn
  cases p with
  | arr xs =>
    simp only
    cases parseUsize key.toList with
    | none => simp [Outcome.NoPanic]
    | some i => simp only; cases xs[i]? <;> simp [Outcome.NoPanic]
  | obj ms =>
    simp only
    cases aget key ms with
    | none => simp [Outcome.NoPanic]
    | some v =>
      simp only
      by_cases hk : key = "_sd" ∨ key = "..."
      · simp [hk, Outcome.NoPanic]
      · simp only [hk, if_false]
        cases aget "_sd" (adel key ms) with
        | none => simp [Outcome.NoPanic]
        | some sd => cases sd <;> simp [Outcome.NoPanic]
  | null => simp [Outcome.NoPanic]
  | bool b => simp [Outcome.NoPanic]
  | num m e => simp [Outcome.NoPanic]
  | str s => simp [Outcome.NoPanic]

theorem updateAt_noPanic {α : Type} (f : J → Outcome (J × α)) (hf : ∀ j, (f j).NoPanic) :
    (toks : List String) → (j : J) → (updateAt f toks j).NoPanic
  | [], j => by simpa [updateAt] using hf j
  | t :: r, .obj ms => by
    unfold updateAt
    split
    · simp [Outcome.NoPanic]
    · rename_i v _
      have := updateAt_noPanic f hf r v
      split <;> simp_all [Outcome.NoPanic]
  | t :: r, .arr xs => by
    unfold updateAt
    split
    · simp [Outcome.NoPanic]
    · split
      · simp [Outcome.NoPanic]
      · rename_i v _
        have := updateAt_noPanic f hf r v
        split <;> simp_all [Outcome.NoPanic]
  | t :: r, .null => by simp [updateAt, Outcome.NoPanic]
  | t :: r, .bool _ => by simp [updateAt, Outcome.NoPanic]
  | t :: r, .num _ _ => by simp [updateAt, Outcome.NoPanic]
  | t :: r, .str _ => by simp [updateAt, Outcome.NoPanic]

theorem parentElem_noPanic (p : List Char) : (parentElem p).NoPanic := by
  unfold parentElem; split <;> simp [Outcome.NoPanic]

theorem buildDisclosure_noPanic (mk : Option String → J → String) (c : J) (p : String) :
    (buildDisclosure mk c p).NoPanic := by
  unfold buildDisclosure
  have h0 := parentElem_noPanic p.toList
  split
  · rename_i h; exact absurd h h0
  · simp [Outcome.NoPanic]
  · split
    · simp [Outcome.NoPanic]
    · exact updateAt_noPanic _ (hideIn_noPanic mk _) _ _

theorem applyPaths_noPanic (mk : Nat → Option String → J → String) :
    (i : Nat) → (c : J) → (ps : List String) → (applyPaths mk i c ps).NoPanic
  | _, _, [] => by simp [applyPaths, Outcome.NoPanic]
  | i, c, p :: r => by
    unfold applyPaths
    have h0 := buildDisclosure_noPanic (mk i) c p
    split
    · rename_i h; exact absurd h h0
    · simp [Outcome.NoPanic]
    · rename_i c' d _
      have h1 := applyPaths_noPanic mk (i+1) c' r
      split
      · rename_i h; exact absurd h h1
      · simp [Outcome.NoPanic]
      · simp [Outcome.NoPanic]

/-- hiding a node keeps an object an object -/
theorem hideIn_isObj (mk : Option String → J → String) (key : String) (p p' : J) (d : DiscSrc)
    (h : hideIn mk key p = .ok (p', d)) (ho : p.isObj = true) : p'.isObj = true := by
  cases p with
  | obj ms =>
    unfold hideIn at h
    simp only at h
    split at h
    · cases h
    · split at h
      · cases h
      · split at h
        · cases h; rfl
        · cases h
        · cases h; rfl
  | _ => simp [J.isObj] at ho

theorem updateAt_isObj {α : Type} (f : J → Outcome (J × α))
    (hf : ∀ j j' a, f j = .ok (j', a) → j.isObj = true → j'.isObj = true)
    (toks : List String) (j j' : J) (a : α)
    (h : updateAt f toks j = .ok (j', a)) (ho : j.isObj = true) : j'.isObj = true := by
  cases j with
  | obj ms =>
    cases toks with
    | nil => exact hf _ _ _ (by simpa [updateAt] using h) ho
    | cons t r =>
      unfold updateAt at h
      split at h
      · cases h
      · split at h
        · cases h; rfl
        · cases h
        · cases h
  | _ => simp [J.isObj] at ho

theorem buildDisclosure_isObj (mk : Option String → J → String) (c c' : J) (p : String) (d : DiscSrc)
    (h : buildDisclosure mk c p = .ok (c', d)) (ho : c.isObj = true) : c'.isObj = true := by
  unfold buildDisclosure at h
  split at h
  · cases h
  · cases h
  · split at h
    · cases h
    · exact updateAt_isObj _ (fun j j' a hh => hideIn_isObj mk _ j j' a hh) _ _ _ _ h ho

theorem applyPaths_isObj (mk : Nat → Option String → J → String) :
    (i : Nat) → (c : J) → (ps : List String) → (c' : J) → (ds : List DiscSrc) →
    applyPaths mk i c ps = .ok (c', ds) → c.isObj = true → c'.isObj = true
  | _, c, [], c', ds, h, ho => by simp [applyPaths] at h; rw [← h.1]; exact ho
  | i, c, p :: r, c', ds, h, ho => by
    unfold applyPaths at h
    split at h
    · cases h
    · cases h
    · rename_i c1 d hb
      have ho1 := buildDisclosure_isObj (mk i) c c1 p d hb ho
      split at h
      · cases h
      · cases h
      · rename_i c2 ds2 ha
        cases h
        exact applyPaths_isObj mk (i+1) c1 r _ _ ha ho1

/-- `Issuer::encode` never panics on a claims object -/
theorem encode_noPanic_obj (claims : J) (paths : List String) (mk : Nat → Option String → J → String)
    (decoys : Option (List String)) (cnf : Option J) (ho : claims.isObj = true) :
    (encode claims paths mk decoys cnf).NoPanic := by
  unfold encode
  have h0 := applyPaths_noPanic mk 0 claims paths
  cases ha : applyPaths mk 0 claims paths with
  | panic => exact absurd ha h0
  | err e => simp [Outcome.NoPanic]
  | ok r =>
    obtain ⟨c1, ds⟩ := r
    have ho1 := applyPaths_isObj mk 0 claims paths c1 ds ha ho
    cases c1 with
    | obj ms =>
      simp only
      -- decoys
      have hd : ∀ l, ∃ r, addDecoys l (.obj ms) = r ∧ (r = .err .sdType ∨ ∃ ms', r = .ok (.obj ms')) := by
        intro l
        refine ⟨_, rfl, ?_⟩
        unfold addDecoys
        cases hsd : aget "_sd" ms with
        | none => right; exact ⟨ains "_sd" (J.arr (List.map J.str l)) ms, by simp [hsd]⟩
        | some sd =>
          cases sd with
          | arr ds => right; exact ⟨ains "_sd" (J.arr (ds ++ List.map J.str l)) ms, by simp [hsd]⟩
          | null => left; simp [hsd]
          | bool b => left; simp [hsd]
          | num m e => left; simp [hsd]
          | str s => left; simp [hsd]
          | obj o => left; simp [hsd]
      cases decoys with
      | none =>
        simp only
        by_cases he : ds.isEmpty = true
        · simp only [he, if_true]
          cases cnf <;> simp [setMember, Outcome.NoPanic]
        · simp only [he]
          cases cnf <;> simp [setMember, Outcome.NoPanic]
      | some l =>
        simp only
        obtain ⟨r, hr, hcase⟩ := hd l
        rw [hr]
        rcases hcase with rfl | ⟨ms', rfl⟩
        · simp [Outcome.NoPanic]
        · simp only
          by_cases he : ds.isEmpty = true
          · simp only [he, if_true]
            cases cnf <;> simp [setMember, Outcome.NoPanic]
          · simp only [he]
            cases cnf <;> simp [setMember, Outcome.NoPanic]
    | _ => simp [J.isObj] at ho1

/-- the digest recorded for a disclosure is the digest function applied to its own name and value -/
theorem hideIn_digest (f : Option String → J → String) (kk : String) (p p' : J) (d : DiscSrc)
    (hh : hideIn f kk p = .ok (p', d)) : d.digest = f d.key d.value := by
  unfold hideIn at hh
  cases p with
  | arr xs =>
    simp only at hh
    cases hp : parseUsize kk.toList with
    | none => simp [hp] at hh
    | some i =>
      simp only [hp] at hh
      cases hx : xs[i]? with
      | none => simp [hx] at hh
      | some v => simp [hx] at hh; rw [← hh.2]
  | obj ms =>
    simp only at hh
    cases hk2 : aget kk ms with
    | none => simp [hk2] at hh
    | some v =>
      simp only [hk2] at hh
      by_cases hr : kk = "_sd" ∨ kk = "..."
      · simp [hr] at hh
      · simp only [hr, if_false] at hh
        cases hs : aget "_sd" (adel kk ms) with
        | none => simp [hs] at hh; rw [← hh.2]
        | some sd =>
          cases sd <;> simp [hs] at hh
          rw [← hh.2]
  | null => simp at hh
  | bool b => simp at hh
  | num m e => simp at hh
  | str s => simp at hh

/-- whatever holds of every result of `f` holds of the result of `updateAt f` -/
theorem updateAt_prop {α : Type} (f : J → Outcome (J × α)) (P : α → Prop)
    (hf : ∀ j j' d, f j = .ok (j', d) → P d) : (toks : List String) → (j j' : J) → (d : α) →
    updateAt f toks j = .ok (j', d) → P d
  | [], j, j', d, hh => hf j j' d (by simpa [updateAt] using hh)
  | t :: rr, .obj ms, j', d, hh => by
    unfold updateAt at hh
    cases hg : aget t ms with
    | none => simp [hg] at hh
    | some v =>
      simp only [hg] at hh
      cases hu : updateAt f rr v with
      | panic => simp [hu] at hh
      | err e => simp [hu] at hh
      | ok z => obtain ⟨v', a⟩ := z; simp [hu] at hh; rw [← hh.2]; exact updateAt_prop f P hf rr v v' a hu
  | t :: rr, .arr xs, j', d, hh => by
    unfold updateAt at hh
    cases hi : parseIndex t.toList with
    | none => simp [hi] at hh
    | some i =>
      simp only [hi] at hh
      cases hx : xs[i]? with
      | none => simp [hx] at hh
      | some v =>
        simp only [hx] at hh
        cases hu : updateAt f rr v with
        | panic => simp [hu] at hh
        | err e => simp [hu] at hh
        | ok z => obtain ⟨v', a⟩ := z; simp [hu] at hh; rw [← hh.2]; exact updateAt_prop f P hf rr v v' a hu
  | t :: rr, .null, _, _, hh => by simp [updateAt] at hh
  | t :: rr, .bool _, _, _, hh => by simp [updateAt] at hh
  | t :: rr, .num _ _, _, _, hh => by simp [updateAt] at hh
  | t :: rr, .str _, _, _, hh => by simp [updateAt] at hh

theorem buildDisclosure_digest (f : Option String → J → String) (c c1 : J) (p : String) (d : DiscSrc)
    (hb : buildDisclosure f c p = .ok (c1, d)) : d.digest = f d.key d.value := by
  unfold buildDisclosure at hb
  cases hpe : parentElem p.toList with
  | panic => simp [hpe] at hb
  | err e => simp [hpe] at hb
  | ok pe =>
    obtain ⟨pp, el⟩ := pe
    simp only [hpe] at hb
    cases hpt : pointerToks pp with
    | none => simp [hpt] at hb
    | some toks =>
      simp only [hpt] at hb
      exact updateAt_prop _ (fun d => d.digest = f d.key d.value)
        (fun j j' d hh => hideIn_digest f _ j j' d hh) toks c c1 d hb

/-- a path without any `/` cannot be resolved -/
theorem parentElem_no_slash (p : List Char) (h : '/' ∉ p) : parentElem p = .err .path := by
  unfold parentElem
  rw [show splitOn '/' p = [p] from splitOn_single p h]
  simp
where
  splitOn_single : (s : List Char) → '/' ∉ s → splitOn '/' s = [s]
    | [], _ => rfl
    | x :: xs, h => by
      have hx : x ≠ '/' := fun e => h (by simp [e])
      have hxs : '/' ∉ xs := fun m => h (by simp [m])
      simp [splitOn, hx, splitOn_single xs hxs]

end Impl
