import SdJwt.Lemmas.Check
import SdJwt.Lemmas.View
import SdJwt.Lemmas.Strip
/-!
The validating pre-pass succeeds on conformant input: `check_digests` over the payload of a
conformant tree and over the values of any of its own disclosures (pairwise different) finds every
embedded digest once.
-/
open Assoc Spec
namespace Impl

/-! ### completeness of `check_digests` (converse of `checkDigests_ok`) -/

theorem noteAll_complete : (gs seen : List String) → (seen ++ gs).Nodup → noteAll gs seen = .ok (seen ++ gs)
  | [], seen, _ => by simp [noteAll]
  | g :: r, seen, h => by
    have hg : g ∉ seen := by
      intro hm
      rw [List.nodup_append] at h
      exact h.2.2 g hm g (by simp) rfl
    have h' : ((seen ++ [g]) ++ r).Nodup := by simpa [List.append_assoc] using h
    simp [noteAll, note, hg, noteAll_complete r (seen ++ [g]) h', List.append_assoc]

theorem phNote_complete (x : J) (seen : List String) (hb : isBadPlaceholder x = false)
    (hn : (seen ++ phDigest x).Nodup) : phNote x seen = .ok (seen ++ phDigest x) := by
  unfold phNote
  cases x with
  | obj ms =>
    simp only
    cases hd : aget "..." ms with
    | none => simp [phDigest, hd]
    | some ph =>
      simp only [isBadPlaceholder, hd, Option.isSome_some, Bool.true_and, bne_eq_false_iff_eq] at hb
      simp only [hb, ne_eq, not_true_eq_false, if_false]
      cases ph with
      | str g =>
        have hg : g ∉ seen := by
          intro hm
          simp only [phDigest, hd, hb, if_true] at hn
          rw [List.nodup_append] at hn
          exact hn.2.2 g hm g (by simp) rfl
        simp [note, hg, phDigest, hd, hb]
      | null => simp [phDigest, hd]
      | bool b => simp [phDigest, hd]
      | num m e => simp [phDigest, hd]
      | arr xs => simp [phDigest, hd]
      | obj ms' => simp [phDigest, hd]
  | null => simp [phDigest]
  | bool b => simp [phDigest]
  | num m e => simp [phDigest]
  | str s' => simp [phDigest]
  | arr xs => simp [phDigest]

theorem checkDigests_complete (j : J) (seen : List String) :
    hasBadSd j = false → hasBadPlaceholder j = false → (seen ++ embedded j).Nodup →
    checkDigests j seen = .ok (seen ++ embedded j) := by
  apply checkDigests.induct
    (motive_1 := fun ms seen => hasBadSd.badM ms = false → hasBadPlaceholder.bpM ms = false →
      (seen ++ embedded.embM ms).Nodup → checkDigests.checkM ms seen = .ok (seen ++ embedded.embM ms))
    (motive_2 := fun j seen => hasBadSd j = false → hasBadPlaceholder j = false →
      (seen ++ embedded j).Nodup → checkDigests j seen = .ok (seen ++ embedded j))
    (motive_3 := fun xs seen => hasBadSd.badL xs = false → hasBadPlaceholder.bpL xs = false →
      (seen ++ embedded.embL xs).Nodup → checkDigests.checkL xs seen = .ok (seen ++ embedded.embL xs))
  -- 1: object with `_sd` array, noteAll ok
  · intro ms seen xs hsd seen' hn ih h1 h2 h3
    simp only [hasBadSd, hsd, Bool.false_or] at h1
    simp only [hasBadPlaceholder] at h2
    simp only [embedded, hsd] at h3 ⊢
    have hn' := noteAll_complete (strsOf xs) seen (by
      rw [← List.append_assoc] at h3; exact (List.nodup_append.mp h3).1)
    rw [hn'] at hn; cases hn
    simp only [checkDigests, hsd, hn']
    rw [ih h1 h2 (by simpa [List.append_assoc] using h3), List.append_assoc]
  · intro ms seen xs hsd e hn h1 h2 h3
    simp only [embedded, hsd] at h3
    have hn' := noteAll_complete (strsOf xs) seen (by
      rw [← List.append_assoc] at h3; exact (List.nodup_append.mp h3).1)
    rw [hn'] at hn; cases hn
  · intro ms seen xs hsd hn h1 h2 h3
    simp only [embedded, hsd] at h3
    have hn' := noteAll_complete (strsOf xs) seen (by
      rw [← List.append_assoc] at h3; exact (List.nodup_append.mp h3).1)
    rw [hn'] at hn; cases hn
  -- 4: `_sd` not an array: excluded by the hypothesis
  · intro ms seen val hna hsd h1 _ _
    cases val with
    | arr xs => exact absurd rfl (hna xs)
    | null => simp [hasBadSd, hsd] at h1
    | bool b => simp [hasBadSd, hsd] at h1
    | num m e => simp [hasBadSd, hsd] at h1
    | str s => simp [hasBadSd, hsd] at h1
    | obj o => simp [hasBadSd, hsd] at h1
  -- 5: object without `_sd`
  · intro ms seen hsd ih h1 h2 h3
    simp only [hasBadSd, hsd, Bool.false_or] at h1
    simp only [hasBadPlaceholder] at h2
    simp only [embedded, hsd, List.nil_append] at h3 ⊢
    simp only [checkDigests, hsd]
    exact ih h1 h2 h3
  -- 6: array
  · intro xs seen ih h1 h2 h3
    simp only [hasBadSd] at h1
    simp only [hasBadPlaceholder] at h2
    simp only [embedded] at h3 ⊢
    simp only [checkDigests]
    exact ih h1 h2 h3
  -- 7: scalar
  · intro t seen h1 h2 _ _ _
    cases t <;> simp_all [checkDigests, embedded]
  -- 8: []
  · intro seen _ _ _
    simp [checkDigests.checkL, embedded.embL]
  -- 9: array item, all fine
  · intro x r seen seen' hp seen'' hx ihx ihr h1 h2 h3
    simp only [hasBadSd.badL, Bool.or_eq_false_iff] at h1
    simp only [hasBadPlaceholder.bpL, Bool.or_eq_false_iff] at h2
    simp only [embedded.embL] at h3 ⊢
    have hp' := phNote_complete x seen h2.1.1 (by
      rw [← List.append_assoc, ← List.append_assoc] at h3
      exact (List.nodup_append.mp (List.nodup_append.mp h3).1).1)
    rw [hp'] at hp; cases hp
    have hx' := ihx h1.1 h2.1.2 (by
      rw [← List.append_assoc, ← List.append_assoc] at h3
      exact (List.nodup_append.mp h3).1)
    rw [hx'] at hx; cases hx
    simp only [checkDigests.checkL, hp', hx']
    rw [ihr h1.2 h2.2 (by simpa [List.append_assoc] using h3)]
    simp [List.append_assoc]
  · intro x r seen seen' hp e hx ihx h1 h2 h3
    simp only [hasBadSd.badL, Bool.or_eq_false_iff] at h1
    simp only [hasBadPlaceholder.bpL, Bool.or_eq_false_iff] at h2
    simp only [embedded.embL] at h3
    have hp' := phNote_complete x seen h2.1.1 (by
      rw [← List.append_assoc, ← List.append_assoc] at h3
      exact (List.nodup_append.mp (List.nodup_append.mp h3).1).1)
    rw [hp'] at hp; cases hp
    have hx' := ihx h1.1 h2.1.2 (by
      rw [← List.append_assoc, ← List.append_assoc] at h3
      exact (List.nodup_append.mp h3).1)
    rw [hx'] at hx; cases hx
  · intro x r seen seen' hp hx ihx h1 h2 h3
    simp only [hasBadSd.badL, Bool.or_eq_false_iff] at h1
    simp only [hasBadPlaceholder.bpL, Bool.or_eq_false_iff] at h2
    simp only [embedded.embL] at h3
    have hp' := phNote_complete x seen h2.1.1 (by
      rw [← List.append_assoc, ← List.append_assoc] at h3
      exact (List.nodup_append.mp (List.nodup_append.mp h3).1).1)
    rw [hp'] at hp; cases hp
    have hx' := ihx h1.1 h2.1.2 (by
      rw [← List.append_assoc, ← List.append_assoc] at h3
      exact (List.nodup_append.mp h3).1)
    rw [hx'] at hx; cases hx
  · intro x r seen e hp h1 h2 h3
    simp only [hasBadPlaceholder.bpL, Bool.or_eq_false_iff] at h2
    simp only [embedded.embL] at h3
    have hp' := phNote_complete x seen h2.1.1 (by
      rw [← List.append_assoc, ← List.append_assoc] at h3
      exact (List.nodup_append.mp (List.nodup_append.mp h3).1).1)
    rw [hp'] at hp; cases hp
  · intro x r seen hp h1 h2 h3
    simp only [hasBadPlaceholder.bpL, Bool.or_eq_false_iff] at h2
    simp only [embedded.embL] at h3
    have hp' := phNote_complete x seen h2.1.1 (by
      rw [← List.append_assoc, ← List.append_assoc] at h3
      exact (List.nodup_append.mp (List.nodup_append.mp h3).1).1)
    rw [hp'] at hp; cases hp
  -- 14: no members
  · intro seen _ _ _
    simp [checkDigests.checkM, embedded.embM]
  -- 15: member, fine
  · intro k v r seen seen' hv ihv ihr h1 h2 h3
    simp only [hasBadSd.badM, Bool.or_eq_false_iff] at h1
    simp only [hasBadPlaceholder.bpM, Bool.or_eq_false_iff] at h2
    simp only [embedded.embM] at h3 ⊢
    have hv' := ihv h1.1 h2.1 (by
      rw [← List.append_assoc] at h3; exact (List.nodup_append.mp h3).1)
    rw [hv'] at hv; cases hv
    simp only [checkDigests.checkM, hv']
    rw [ihr h1.2 h2.2 (by simpa [List.append_assoc] using h3), List.append_assoc]
  · intro k v r seen e hv ihv h1 h2 h3
    simp only [hasBadSd.badM, Bool.or_eq_false_iff] at h1
    simp only [hasBadPlaceholder.bpM, Bool.or_eq_false_iff] at h2
    simp only [embedded.embM] at h3
    have hv' := ihv h1.1 h2.1 (by
      rw [← List.append_assoc] at h3; exact (List.nodup_append.mp h3).1)
    rw [hv'] at hv; cases hv
  · intro k v r seen hv ihv h1 h2 h3
    simp only [hasBadSd.badM, Bool.or_eq_false_iff] at h1
    simp only [hasBadPlaceholder.bpM, Bool.or_eq_false_iff] at h2
    simp only [embedded.embM] at h3
    have hv' := ihv h1.1 h2.1 (by
      rw [← List.append_assoc] at h3; exact (List.nodup_append.mp h3).1)
    rw [hv'] at hv; cases hv

/-! ### what the pre-pass sees in the payload of a conformant tree -/

theorem strsOf_strs (ds : List String) : strsOf (ds.map .str) = ds := by
  induction ds with
  | nil => rfl
  | cons d r ih => simp [strsOf, ih]

theorem embL_strs (ds : List String) : embedded.embL (ds.map .str) = [] := by
  induction ds with
  | nil => rfl
  | cons d r ih => simp [embedded.embL, phDigest, embedded, ih]

theorem badL_strs (ds : List String) : hasBadSd.badL (ds.map .str) = false := by
  induction ds with
  | nil => rfl
  | cons d r ih => simp [hasBadSd.badL, hasBadSd, ih]

theorem bpL_strs (ds : List String) : hasBadPlaceholder.bpL (ds.map .str) = false := by
  induction ds with
  | nil => rfl
  | cons d r ih => simp [hasBadPlaceholder.bpL, hasBadPlaceholder, isBadPlaceholder, ih]

theorem walk_ains (k : String) (v : J) (hv1 : embedded v = []) (hv2 : hasBadSd v = false)
    (hv3 : hasBadPlaceholder v = false) : (l : List (String × J)) → aget k l = none →
    embedded.embM (ains k v l) = embedded.embM l ∧
    hasBadSd.badM (ains k v l) = hasBadSd.badM l ∧
    hasBadPlaceholder.bpM (ains k v l) = hasBadPlaceholder.bpM l
  | [], _ => by simp [ains, embedded.embM, hasBadSd.badM, hasBadPlaceholder.bpM, hv1, hv2, hv3]
  | (k', v') :: r, h => by
    simp only [aget] at h
    have hkk : k ≠ k' := by intro e; simp [e] at h
    have hr : aget k r = none := by simpa [hkk] using h
    obtain ⟨i1, i2, i3⟩ := walk_ains k v hv1 hv2 hv3 r hr
    by_cases hlt : k < k'
    · simp [ains, hlt, embedded.embM, hasBadSd.badM, hasBadPlaceholder.bpM, hv1, hv2, hv3]
    · simp [ains, hlt, hkk, embedded.embM, hasBadSd.badM, hasBadPlaceholder.bpM, i1, i2, i3]

theorem phDigest_hview (S : String → Bool) : (T : MJ) → T.WF → phDigest (T.hview S) = [] ∧
    isBadPlaceholder (T.hview S) = false
  | .leaf j, wf => by cases j <;> simp_all [MJ.hview, phDigest, isBadPlaceholder, MJ.WF, J.scalar]
  | .arr xs, _ => by simp [MJ.hview, phDigest, isBadPlaceholder]
  | .obj ms sd, wf => by
    simp only [MJ.WF] at wf
    simp [MJ.hview, phDigest, isBadPlaceholder, aget_dots_withSd, aget_dots_hview S ms wf.1]

theorem walk_placeholder (g : String) : phDigest (placeholder g) = [g] ∧
    isBadPlaceholder (placeholder g) = false ∧ embedded (placeholder g) = [] ∧
    hasBadSd (placeholder g) = false ∧ hasBadPlaceholder (placeholder g) = false := by
  simp [placeholder, phDigest, isBadPlaceholder, embedded, embedded.embM, hasBadSd, hasBadSd.badM,
    hasBadPlaceholder, hasBadPlaceholder.bpM, aget]

mutual
theorem MJ.prepass_view : (T : MJ) → T.WF →
    embedded (T.hview noneShown) = T.vdigests ∧ hasBadSd (T.hview noneShown) = false ∧
    hasBadPlaceholder (T.hview noneShown) = false
  | .leaf j, wf => by
    cases j <;> simp_all [MJ.hview, embedded, hasBadSd, hasBadPlaceholder, MJ.vdigests, MJ.WF, J.scalar]
  | .arr xs, wf => by
    simp only [MJ.WF] at wf
    obtain ⟨h1, h2, h3⟩ := MElems.prepass_view xs wf
    simp [MJ.hview, embedded, hasBadSd, hasBadPlaceholder, MJ.vdigests, h1, h2, h3]
  | .obj ms sd, wf => by
    simp only [MJ.WF] at wf
    obtain ⟨h1, h2, h3⟩ := MMems.prepass_view ms wf.1
    cases sd with
    | none =>
      simp [MJ.hview, withSd, embedded, hasBadSd, hasBadPlaceholder, MJ.vdigests,
        aget_sd_hview noneShown ms wf.1, h1, h2, h3]
    | some ds =>
      obtain ⟨w1, w2, w3⟩ := walk_ains "_sd" (.arr (ds.map .str))
        (by simp [embedded, embL_strs]) (by simp [hasBadSd, badL_strs]) (by simp [hasBadPlaceholder, bpL_strs])
        (ms.hview noneShown) (aget_sd_hview noneShown ms wf.1)
      simp [MJ.hview, withSd, embedded, hasBadSd, hasBadPlaceholder, MJ.vdigests, aget_ains_self,
        strsOf_strs, w1, w2, w3, h1, h2, h3]
theorem MElems.prepass_view : (xs : MElems) → xs.WF →
    embedded.embL (xs.hview noneShown) = xs.vdigests ∧ hasBadSd.badL (xs.hview noneShown) = false ∧
    hasBadPlaceholder.bpL (xs.hview noneShown) = false
  | .nil, _ => by simp [MElems.hview, embedded.embL, hasBadSd.badL, hasBadPlaceholder.bpL, MElems.vdigests]
  | .clear x r, wf => by
    simp only [MElems.WF] at wf
    obtain ⟨h1, h2, h3⟩ := MJ.prepass_view x wf.1
    obtain ⟨r1, r2, r3⟩ := MElems.prepass_view r wf.2
    obtain ⟨p1, p2⟩ := phDigest_hview noneShown x wf.1
    simp [MElems.hview, embedded.embL, hasBadSd.badL, hasBadPlaceholder.bpL, MElems.vdigests,
      h1, h2, h3, r1, r2, r3, p1, p2]
  | .marked dg x r, wf => by
    simp only [MElems.WF] at wf
    obtain ⟨r1, r2, r3⟩ := MElems.prepass_view r wf.2
    obtain ⟨p1, p2, p3, p4, p5⟩ := walk_placeholder dg
    simp [MElems.hview, embedded.embL, hasBadSd.badL, hasBadPlaceholder.bpL, MElems.vdigests,
      r1, r2, r3, p1, p2, p3, p4, p5]
  | .decoy dg r, wf => by
    simp only [MElems.WF] at wf
    obtain ⟨r1, r2, r3⟩ := MElems.prepass_view r wf
    obtain ⟨p1, p2, p3, p4, p5⟩ := walk_placeholder dg
    simp [MElems.hview, embedded.embL, hasBadSd.badL, hasBadPlaceholder.bpL, MElems.vdigests,
      r1, r2, r3, p1, p2, p3, p4, p5]
theorem MMems.prepass_view : (ms : MMems) → ms.WF →
    embedded.embM (ms.hview noneShown) = ms.vdigests ∧ hasBadSd.badM (ms.hview noneShown) = false ∧
    hasBadPlaceholder.bpM (ms.hview noneShown) = false
  | .nil, _ => by simp [MMems.hview, embedded.embM, hasBadSd.badM, hasBadPlaceholder.bpM, MMems.vdigests]
  | .clear k x r, wf => by
    simp only [MMems.WF] at wf
    obtain ⟨h1, h2, h3⟩ := MJ.prepass_view x wf.2.2.1
    obtain ⟨r1, r2, r3⟩ := MMems.prepass_view r wf.2.2.2.2
    simp [MMems.hview, embedded.embM, hasBadSd.badM, hasBadPlaceholder.bpM, MMems.vdigests,
      h1, h2, h3, r1, r2, r3]
  | .marked k dg x r, wf => by
    simp only [MMems.WF] at wf
    obtain ⟨r1, r2, r3⟩ := MMems.prepass_view r wf.2.2.2.2
    simp [MMems.hview, MMems.vdigests, r1, r2, r3]
end

end Impl
