import SdJwt.Impl.Yaml
import SdJwt.Spec.Marked
import SdJwt.Lemmas.View
import SdJwt.Lemmas.YamlL
/-!
C15, the general statement: the YAML document obtained by annotating a marked tree with `!sd`
tags parses to the tree's plain claims and to one path per marked node, nested paths first.
-/
open Assoc Spec Path
namespace Impl

def jToY : J → Y
  | .null => .null
  | .bool b => .bool b
  | .num m e => .num m e
  | .str s => .str s
  | _ => .null

mutual
/-- the YAML value of the document: `!sd` on the keys of marked members and on marked items -/
def _root_.MJ.toY : MJ → Y
  | .leaf j => jToY j
  | .arr xs => .seq xs.toY
  | .obj ms _ => .map ms.toY
def _root_.MElems.toY : MElems → List Y
  | .nil => []
  | .clear x r => x.toY :: r.toY
  | .marked _ x r => .tagged "!sd" x.toY :: r.toY
  | .decoy _ r => r.toY
def _root_.MMems.toY : MMems → List (Y × Y)
  | .nil => []
  | .clear k x r => (.str k, x.toY) :: r.toY
  | .marked k _ x r => (.tagged "!sd" (.str k), x.toY) :: r.toY
end

mutual
/-- the same document without its tags -/
def _root_.MJ.toYplain : MJ → Y
  | .leaf j => jToY j
  | .arr xs => .seq xs.toYplain
  | .obj ms _ => .map ms.toYplain
def _root_.MElems.toYplain : MElems → List Y
  | .nil => []
  | .clear x r => x.toYplain :: r.toYplain
  | .marked _ x r => x.toYplain :: r.toYplain
  | .decoy _ r => r.toYplain
def _root_.MMems.toYplain : MMems → List (Y × Y)
  | .nil => []
  | .clear k x r => (.str k, x.toYplain) :: r.toYplain
  | .marked k _ x r => (.str k, x.toYplain) :: r.toYplain
end

mutual
/-- what a YAML document can express: tags on string sequence items only, no decoys -/
def _root_.MJ.YamlOK : MJ → Prop
  | .leaf j => J.scalar j
  | .arr xs => xs.YamlOK
  | .obj ms _ => ms.YamlOK
def _root_.MElems.YamlOK : MElems → Prop
  | .nil => True
  | .clear x r => x.YamlOK ∧ r.YamlOK
  | .marked _ x r => (∃ s, x = .leaf (.str s)) ∧ r.YamlOK
  | .decoy _ _ => False
def _root_.MMems.YamlOK : MMems → Prop
  | .nil => True
  | .clear _ x r => x.YamlOK ∧ r.YamlOK
  | .marked _ _ x r => x.YamlOK ∧ r.YamlOK
end

mutual
/-- the paths `parse_yaml` reports, in its order: for a tagged key the paths below it first, then
its own; `segs` are the escaped segments from the root -/
def _root_.MJ.ypaths (segs : List String) : MJ → List String
  | .leaf _ => []
  | .arr xs => xs.ypaths segs 0
  | .obj ms _ => ms.ypaths segs
def _root_.MElems.ypaths (segs : List String) (i : Nat) : MElems → List String
  | .nil => []
  | .clear x r => x.ypaths (segs ++ [toString i]) ++ r.ypaths segs (i+1)
  | .marked _ _ r => joinPath (segs ++ [toString i]) :: r.ypaths segs (i+1)
  | .decoy _ r => r.ypaths segs (i+1)
def _root_.MMems.ypaths (segs : List String) : MMems → List String
  | .nil => []
  | .clear k x r => x.ypaths (segs ++ [escapeSeg k]) ++ r.ypaths segs
  | .marked k _ x r => x.ypaths (segs ++ [escapeSeg k]) ++ joinPath (segs ++ [escapeSeg k]) :: r.ypaths segs
end

theorem collect_scalar (segs : List String) (j : J) (h : J.scalar j) :
    collect segs (jToY j) = .ok (jToY j, []) := by
  cases j <;> simp_all [jToY, collect, J.scalar]

mutual
theorem MJ.collect_toY : (T : MJ) → (segs : List String) → T.YamlOK →
    collect segs T.toY = .ok (T.toYplain, T.ypaths segs)
  | .leaf j, segs, h => by
    simp only [MJ.YamlOK] at h
    simpa [MJ.toY, MJ.toYplain, MJ.ypaths] using collect_scalar segs j h
  | .arr xs, segs, h => by
    simp only [MJ.YamlOK] at h
    simp [MJ.toY, MJ.toYplain, MJ.ypaths, collect, MElems.collect_toY xs segs 0 h]
  | .obj ms sd, segs, h => by
    simp only [MJ.YamlOK] at h
    simp [MJ.toY, MJ.toYplain, MJ.ypaths, collect, MMems.collect_toY ms segs h]
theorem MElems.collect_toY : (xs : MElems) → (segs : List String) → (i : Nat) → xs.YamlOK →
    collect.collectS segs i xs.toY = .ok (xs.toYplain, xs.ypaths segs i)
  | .nil, _, _, _ => by simp [MElems.toY, MElems.toYplain, MElems.ypaths, collect.collectS]
  | .clear x r, segs, i, h => by
    simp only [MElems.YamlOK] at h
    have h1 := MJ.collect_toY x (segs ++ [toString i]) h.1
    have h2 := MElems.collect_toY r segs (i+1) h.2
    -- a clear item keeps no tag: `stripItemTag` is the identity on an untagged value
    have hs : ∀ ps, stripItemTag x.toYplain ps = .ok (x.toYplain, ps) := by
      intro ps
      cases x with
      | leaf j => cases j <;> simp [MJ.toYplain, jToY, stripItemTag]
      | arr ys => simp [MJ.toYplain, stripItemTag]
      | obj ms sd => simp [MJ.toYplain, stripItemTag]
    simp only [MElems.toY, MElems.toYplain, MElems.ypaths, collect.collectS, h1, hs, h2]
  | .marked dg x r, segs, i, h => by
    simp only [MElems.YamlOK] at h
    obtain ⟨⟨s, rfl⟩, hr⟩ := h
    have h2 := MElems.collect_toY r segs (i+1) hr
    simp [MElems.toY, MElems.toYplain, MElems.ypaths, MJ.toY, MJ.toYplain, jToY, collect.collectS,
      collect, stripItemTag, Y.asStr, h2]
  | .decoy dg r, _, _, h => by simp [MElems.YamlOK] at h
theorem MMems.collect_toY : (ms : MMems) → (segs : List String) → ms.YamlOK →
    collect.collectM segs ms.toY = .ok (ms.toYplain, ms.ypaths segs)
  | .nil, _, _ => by simp [MMems.toY, MMems.toYplain, MMems.ypaths, collect.collectM]
  | .clear k x r, segs, h => by
    simp only [MMems.YamlOK] at h
    have h1 := MJ.collect_toY x (segs ++ [escapeSeg k]) h.1
    have h2 := MMems.collect_toY r segs h.2
    simp [MMems.toY, MMems.toYplain, MMems.ypaths, collect.collectM, keyKind, h1, h2]
  | .marked k dg x r, segs, h => by
    simp only [MMems.YamlOK] at h
    have h1 := MJ.collect_toY x (segs ++ [escapeSeg k]) h.1
    have h2 := MMems.collect_toY r segs h.2
    simp [MMems.toY, MMems.toYplain, MMems.ypaths, collect.collectM, keyKind, Y.asStr, h1, h2]
end

end Impl

namespace Impl

theorem ains_append_gt {α : Type} (k : String) (v : α) : (acc : List (String × α)) →
    (∀ p ∈ acc, p.1 < k) → ains k v acc = acc ++ [(k, v)]
  | [], _ => rfl
  | (k', v') :: r, h => by
    have hlt : k' < k := h (k', v') (by simp)
    rw [ains_cons_lt _ _ _ hlt, ains_append_gt k v r (fun p hp => h p (by simp [hp]))]
    rfl

theorem ofList_sorted_aux {α : Type} : (l acc : List (String × α)) → Sorted l →
    (∀ p ∈ acc, ∀ q ∈ l, p.1 < q.1) →
    l.foldl (fun a kv => ains kv.1 kv.2 a) acc = acc ++ l
  | [], acc, _, _ => by simp
  | (k, v) :: r, acc, hs, hlt => by
    simp only [List.foldl_cons]
    rw [ains_append_gt k v acc (fun p hp => hlt p hp (k, v) (by simp))]
    rw [ofList_sorted_aux r (acc ++ [(k, v)]) hs.2 (by
      intro p hp q hq
      simp only [List.mem_append, List.mem_singleton] at hp
      rcases hp with hp | hp
      · exact hlt p hp q (by simp [hq])
      · subst hp; exact (allGt_iff.mp hs.1) q hq)]
    simp

/-- building a map from an already sorted list of bindings gives that list -/
theorem ofList_sorted {α : Type} (l : List (String × α)) (hs : Sorted l) : Assoc.ofList l = l := by
  unfold Assoc.ofList
  simpa using ofList_sorted_aux l [] hs (by simp)

theorem yamlToJson_scalar (j : J) (h : J.scalar j) : yamlToJson (jToY j) = some j := by
  cases j <;> simp_all [jToY, yamlToJson, J.scalar]

mutual
theorem MJ.yamlToJson_plain : (T : MJ) → T.WF → yamlToJson T.toYplain = some T.plain
  | .leaf j, wf => by
    simp only [MJ.WF] at wf
    simpa [MJ.toYplain, MJ.plain, MJ.project] using yamlToJson_scalar j wf
  | .arr xs, wf => by
    simp only [MJ.WF] at wf
    simp [MJ.toYplain, MJ.plain, MJ.project, yamlToJson, MElems.yamlToJson_plain xs wf]
  | .obj ms sd, wf => by
    simp only [MJ.WF] at wf
    have hs : Sorted (ms.project (fun _ => true)) := by
      have := sorted_hview (fun _ => true) ms wf.1
      -- `project ⊤` and `hview ⊤` list the same keys; sortedness of `project` directly:
      exact MMems.sorted_project ms wf.1
    simp [MJ.toYplain, MJ.plain, MJ.project, yamlToJson, MMems.yamlToJson_plain ms wf.1, ofList_sorted _ hs]
theorem MElems.yamlToJson_plain : (xs : MElems) → xs.WF →
    yamlToJson.seqToJson xs.toYplain = some (xs.project (fun _ => true))
  | .nil, _ => by simp [MElems.toYplain, MElems.project, yamlToJson.seqToJson]
  | .clear x r, wf => by
    simp only [MElems.WF] at wf
    simp [MElems.toYplain, MElems.project, yamlToJson.seqToJson, MJ.yamlToJson_plain x wf.1,
      MElems.yamlToJson_plain r wf.2, MJ.plain]
  | .marked dg x r, wf => by
    simp only [MElems.WF] at wf
    simp [MElems.toYplain, MElems.project, yamlToJson.seqToJson, MJ.yamlToJson_plain x wf.1,
      MElems.yamlToJson_plain r wf.2, MJ.plain]
  | .decoy dg r, wf => by
    simp only [MElems.WF] at wf
    simp [MElems.toYplain, MElems.project, MElems.yamlToJson_plain r wf]
theorem MMems.yamlToJson_plain : (ms : MMems) → ms.WF →
    yamlToJson.mapToJson ms.toYplain = some (ms.project (fun _ => true))
  | .nil, _ => by simp [MMems.toYplain, MMems.project, yamlToJson.mapToJson]
  | .clear k x r, wf => by
    simp only [MMems.WF] at wf
    simp [MMems.toYplain, MMems.project, yamlToJson.mapToJson, MJ.yamlToJson_plain x wf.2.2.1,
      MMems.yamlToJson_plain r wf.2.2.2.2, MJ.plain]
  | .marked k dg x r, wf => by
    simp only [MMems.WF] at wf
    simp [MMems.toYplain, MMems.project, yamlToJson.mapToJson, MJ.yamlToJson_plain x wf.2.2.1,
      MMems.yamlToJson_plain r wf.2.2.2.2, MJ.plain]
theorem MMems.keysGt_project (k0 : String) : (ms : MMems) → ms.keysGt k0 → AllGt k0 (ms.project (fun _ => true))
  | .nil, _ => trivial
  | .clear k x r, h => by
    simp only [MMems.keysGt] at h
    exact ⟨h.1, MMems.keysGt_project k0 r h.2⟩
  | .marked k dg x r, h => by
    simp only [MMems.keysGt] at h
    simp only [MMems.project, if_true]
    exact ⟨h.1, MMems.keysGt_project k0 r h.2⟩
theorem MMems.sorted_project : (ms : MMems) → ms.WF → Sorted (ms.project (fun _ => true))
  | .nil, _ => trivial
  | .clear k x r, wf => by
    simp only [MMems.WF] at wf
    exact ⟨MMems.keysGt_project k r wf.2.2.2.1, MMems.sorted_project r wf.2.2.2.2⟩
  | .marked k dg x r, wf => by
    simp only [MMems.WF] at wf
    simp only [MMems.project, if_true]
    exact ⟨MMems.keysGt_project k r wf.2.2.2.1, MMems.sorted_project r wf.2.2.2.2⟩
end

/-- **C15, general.** For every marked tree a YAML document can express (`YamlOK`: string-keyed
mappings — `WF` —, tags on keys at any depth, also inside sequences, below other tagged keys and
in single-entry mappings, and on string sequence items): parsing the annotated document yields the
tree's plain claims and the paths `ypaths`, one per tagged node, nested paths before the
enclosing one. -/
theorem parseYaml_toY (T : MJ) (wf : T.WF) (hy : T.YamlOK) :
    parseYaml T.toY = .ok (T.plain, T.ypaths []) := by
  simp [parseYaml, MJ.collect_toY T [] hy, MJ.yamlToJson_plain T wf]

end Impl

namespace Impl
open Path

theorem joinPath_snoc (segs : List String) (s : String) :
    joinPath (segs ++ [s]) = joinPath segs ++ "/" ++ s := by
  simp [joinPath, List.foldl_append]

theorem fmtPath_joinPath (segs : List String) (k : String) :
    fmtPath (joinPath segs) k = joinPath (segs ++ [escapeSeg k]) := by
  rw [joinPath_snoc]
  unfold fmtPath
  split
  · next h => rw [h]; simp
  · rfl

theorem escapeL_digits : (l : List Char) → (∀ c ∈ l, c.isDigit) → escapeL l = l
  | [], _ => rfl
  | c :: r, h => by
    have hc : c.isDigit := h c (by simp)
    have h1 : c ≠ '~' := by intro e; subst e; revert hc; decide
    have h2 : c ≠ '/' := by intro e; subst e; revert hc; decide
    simp [escapeL, h1, h2, escapeL_digits r (fun c hc => h c (by simp [hc]))]

/-- an index needs no escaping -/
theorem escapeSeg_index (i : Nat) : escapeSeg (toString i) = toString i := by
  unfold escapeSeg
  have : (toString i).toList = Nat.toDigits 10 i := Nat.toList_repr
  rw [this, escapeL_digits _ (fun c hc => Nat.isDigit_of_mem_toDigits (by omega) (by omega) hc)]
  exact Nat.repr_eq_ofList_toDigits.symm

mutual
/-- the reported paths are, as a multiset, the pointers of the marked nodes of `T`: one per
marked node, none for any other node -/
theorem MJ.ypaths_perm : (T : MJ) → (segs : List String) → T.YamlOK →
    (T.ypaths segs).Perm ((T.paths (joinPath segs)).map (·.1))
  | .leaf _, _, _ => by simp [MJ.ypaths, MJ.paths]
  | .arr xs, segs, h => by
    simp only [MJ.YamlOK] at h
    simpa [MJ.ypaths, MJ.paths] using MElems.ypaths_perm xs segs 0 h
  | .obj ms _, segs, h => by
    simp only [MJ.YamlOK] at h
    simpa [MJ.ypaths, MJ.paths] using MMems.ypaths_perm ms segs h
theorem MElems.ypaths_perm : (xs : MElems) → (segs : List String) → (i : Nat) → xs.YamlOK →
    (xs.ypaths segs i).Perm ((xs.paths (joinPath segs) i).map (·.1))
  | .nil, _, _, _ => by simp [MElems.ypaths, MElems.paths]
  | .clear x r, segs, i, h => by
    simp only [MElems.YamlOK] at h
    have h1 := MJ.ypaths_perm x (segs ++ [toString i]) h.1
    have h2 := MElems.ypaths_perm r segs (i+1) h.2
    simp only [MElems.ypaths, MElems.paths, List.map_append, fmtPath_joinPath, escapeSeg_index]
    exact h1.append h2
  | .marked dg x r, segs, i, h => by
    simp only [MElems.YamlOK] at h
    obtain ⟨⟨s, rfl⟩, hr⟩ := h
    have h2 := MElems.ypaths_perm r segs (i+1) hr
    simp only [MElems.ypaths, MElems.paths, MJ.paths, List.map_cons, List.map_append, List.map_nil,
      List.nil_append, fmtPath_joinPath, escapeSeg_index]
    exact h2.cons _
  | .decoy dg r, _, _, h => by simp [MElems.YamlOK] at h
theorem MMems.ypaths_perm : (ms : MMems) → (segs : List String) → ms.YamlOK →
    (ms.ypaths segs).Perm ((ms.paths (joinPath segs)).map (·.1))
  | .nil, _, _ => by simp [MMems.ypaths, MMems.paths]
  | .clear k x r, segs, h => by
    simp only [MMems.YamlOK] at h
    have h1 := MJ.ypaths_perm x (segs ++ [escapeSeg k]) h.1
    have h2 := MMems.ypaths_perm r segs h.2
    simp only [MMems.ypaths, MMems.paths, List.map_append, fmtPath_joinPath]
    exact h1.append h2
  | .marked k dg x r, segs, h => by
    simp only [MMems.YamlOK] at h
    have h1 := MJ.ypaths_perm x (segs ++ [escapeSeg k]) h.1
    have h2 := MMems.ypaths_perm r segs h.2
    simp only [MMems.ypaths, MMems.paths, List.map_cons, List.map_append, fmtPath_joinPath]
    exact List.perm_middle.trans ((h1.append h2).cons _)
end

end Impl
