import SdJwt.Lemmas.Reveal
/-! Every digest of a tree is visible in exactly one place: in the payload, or in the payload of
exactly one marked node. -/
open Assoc Spec

/-- the visible digests of all marked nodes' subtrees, concatenated -/
def hiddenFlat (l : List (String × MJ)) : List String := (l.map (fun e => e.2.vdigests)).flatten

theorem hiddenFlat_append (a b : List (String × MJ)) : hiddenFlat (a ++ b) = hiddenFlat a ++ hiddenFlat b := by
  simp [hiddenFlat]

theorem hiddenFlat_cons (e : String × MJ) (r : List (String × MJ)) :
    hiddenFlat (e :: r) = e.2.vdigests ++ hiddenFlat r := by
  simp [hiddenFlat]

mutual
theorem MJ.count_digests (a : String) : (T : MJ) →
    T.digests.count a = T.vdigests.count a + (hiddenFlat T.hiddenE).count a
  | .leaf _ => by simp [MJ.digests, MJ.vdigests, MJ.hiddenE, hiddenFlat]
  | .arr xs => by simpa [MJ.digests, MJ.vdigests, MJ.hiddenE] using MElems.count_digests a xs
  | .obj ms sd => by
    have := MMems.count_digests a ms
    simp only [MJ.digests, MJ.vdigests, MJ.hiddenE, List.count_append]
    omega
theorem MElems.count_digests (a : String) : (xs : MElems) →
    xs.digests.count a = xs.vdigests.count a + (hiddenFlat xs.hiddenE).count a
  | .nil => by simp [MElems.digests, MElems.vdigests, MElems.hiddenE, hiddenFlat]
  | .clear x r => by
    have h1 := MJ.count_digests a x
    have h2 := MElems.count_digests a r
    simp only [MElems.digests, MElems.vdigests, MElems.hiddenE, hiddenFlat_append, List.count_append]
    omega
  | .marked dg x r => by
    have h1 := MJ.count_digests a x
    have h2 := MElems.count_digests a r
    simp only [MElems.digests, MElems.vdigests, MElems.hiddenE, hiddenFlat_append, hiddenFlat_cons,
      List.count_append, List.count_cons]
    omega
  | .decoy dg r => by
    have h2 := MElems.count_digests a r
    simp only [MElems.digests, MElems.vdigests, MElems.hiddenE, List.count_cons]
    omega
theorem MMems.count_digests (a : String) : (ms : MMems) →
    ms.digests.count a = ms.vdigests.count a + (hiddenFlat ms.hiddenE).count a
  | .nil => by simp [MMems.digests, MMems.vdigests, MMems.hiddenE, hiddenFlat]
  | .clear k x r => by
    have h1 := MJ.count_digests a x
    have h2 := MMems.count_digests a r
    simp only [MMems.digests, MMems.vdigests, MMems.hiddenE, hiddenFlat_append, List.count_append]
    omega
  | .marked k dg x r => by
    have h1 := MJ.count_digests a x
    have h2 := MMems.count_digests a r
    simp only [MMems.digests, MMems.vdigests, MMems.hiddenE, hiddenFlat_append, hiddenFlat_cons,
      List.count_append]
    omega
end

/-- all digests distinct ⇒ the visible digests followed by the visible digests of all marked
nodes' subtrees are distinct -/
theorem MJ.nodup_visible_hidden (T : MJ) (h : T.digests.Nodup) :
    (T.vdigests ++ hiddenFlat T.hiddenE).Nodup := by
  rw [List.nodup_iff_count]
  intro a
  have := MJ.count_digests a T
  have h1 := (List.nodup_iff_count.mp h) a
  simp only [List.count_append]
  omega

mutual
theorem MJ.hiddenE_fst : (T : MJ) → T.hiddenE.map (·.1) = T.allMarks
  | .leaf _ => rfl
  | .arr xs => by simpa [MJ.hiddenE, MJ.allMarks] using MElems.hiddenE_fst xs
  | .obj ms _ => by simpa [MJ.hiddenE, MJ.allMarks] using MMems.hiddenE_fst ms
theorem MElems.hiddenE_fst : (xs : MElems) → xs.hiddenE.map (·.1) = xs.allMarks
  | .nil => rfl
  | .clear x r => by simp [MElems.hiddenE, MElems.allMarks, MJ.hiddenE_fst x, MElems.hiddenE_fst r]
  | .marked dg x r => by simp [MElems.hiddenE, MElems.allMarks, MJ.hiddenE_fst x, MElems.hiddenE_fst r]
  | .decoy dg r => by simp [MElems.hiddenE, MElems.allMarks, MElems.hiddenE_fst r]
theorem MMems.hiddenE_fst : (ms : MMems) → ms.hiddenE.map (·.1) = ms.allMarks
  | .nil => rfl
  | .clear k x r => by simp [MMems.hiddenE, MMems.allMarks, MJ.hiddenE_fst x, MMems.hiddenE_fst r]
  | .marked k dg x r => by simp [MMems.hiddenE, MMems.allMarks, MJ.hiddenE_fst x, MMems.hiddenE_fst r]
end

mutual
/-- every disclosure of the tree is the disclosure of one of its marked nodes -/
theorem MJ.discs_hiddenE : (T : MJ) → ∀ e ∈ T.discs, ∃ x, (e.digest, x) ∈ T.hiddenE ∧ e.value = x.payload
  | .leaf _, e, h => by simp [MJ.discs] at h
  | .arr xs, e, h => by simpa [MJ.hiddenE] using MElems.discs_hiddenE xs e (by simpa [MJ.discs] using h)
  | .obj ms _, e, h => by simpa [MJ.hiddenE] using MMems.discs_hiddenE ms e (by simpa [MJ.discs] using h)
theorem MElems.discs_hiddenE : (xs : MElems) → ∀ e ∈ xs.discs, ∃ x, (e.digest, x) ∈ xs.hiddenE ∧ e.value = x.payload
  | .nil, e, h => by simp [MElems.discs] at h
  | .clear x r, e, h => by
    simp only [MElems.discs, List.mem_append] at h
    simp only [MElems.hiddenE, List.mem_append]
    rcases h with h | h
    · obtain ⟨y, hy, hv⟩ := MJ.discs_hiddenE x e h; exact ⟨y, Or.inl hy, hv⟩
    · obtain ⟨y, hy, hv⟩ := MElems.discs_hiddenE r e h; exact ⟨y, Or.inr hy, hv⟩
  | .marked dg x r, e, h => by
    simp only [MElems.discs, List.mem_cons, List.mem_append] at h
    simp only [MElems.hiddenE, List.mem_cons, List.mem_append]
    rcases h with h | h | h
    · subst h; exact ⟨x, Or.inl rfl, rfl⟩
    · obtain ⟨y, hy, hv⟩ := MJ.discs_hiddenE x e h; exact ⟨y, Or.inr (Or.inl hy), hv⟩
    · obtain ⟨y, hy, hv⟩ := MElems.discs_hiddenE r e h; exact ⟨y, Or.inr (Or.inr hy), hv⟩
  | .decoy dg r, e, h => by
    simp only [MElems.discs] at h
    simpa [MElems.hiddenE] using MElems.discs_hiddenE r e h
theorem MMems.discs_hiddenE : (ms : MMems) → ∀ e ∈ ms.discs, ∃ x, (e.digest, x) ∈ ms.hiddenE ∧ e.value = x.payload
  | .nil, e, h => by simp [MMems.discs] at h
  | .clear k x r, e, h => by
    simp only [MMems.discs, List.mem_append] at h
    simp only [MMems.hiddenE, List.mem_append]
    rcases h with h | h
    · obtain ⟨y, hy, hv⟩ := MJ.discs_hiddenE x e h; exact ⟨y, Or.inl hy, hv⟩
    · obtain ⟨y, hy, hv⟩ := MMems.discs_hiddenE r e h; exact ⟨y, Or.inr hy, hv⟩
  | .marked k dg x r, e, h => by
    simp only [MMems.discs, List.mem_cons, List.mem_append] at h
    simp only [MMems.hiddenE, List.mem_cons, List.mem_append]
    rcases h with h | h | h
    · subst h; exact ⟨x, Or.inl rfl, rfl⟩
    · obtain ⟨y, hy, hv⟩ := MJ.discs_hiddenE x e h; exact ⟨y, Or.inr (Or.inl hy), hv⟩
    · obtain ⟨y, hy, hv⟩ := MMems.discs_hiddenE r e h; exact ⟨y, Or.inr (Or.inr hy), hv⟩
end

mutual
/-- the subtree of a marked node of a well-formed tree is well formed -/
theorem MJ.hiddenE_wf : (T : MJ) → T.WF → ∀ e ∈ T.hiddenE, e.2.WF
  | .leaf _, _, e, h => by simp [MJ.hiddenE] at h
  | .arr xs, wf, e, h => by
    simp only [MJ.WF] at wf
    exact MElems.hiddenE_wf xs wf e (by simpa [MJ.hiddenE] using h)
  | .obj ms _, wf, e, h => by
    simp only [MJ.WF] at wf
    exact MMems.hiddenE_wf ms wf.1 e (by simpa [MJ.hiddenE] using h)
theorem MElems.hiddenE_wf : (xs : MElems) → xs.WF → ∀ e ∈ xs.hiddenE, e.2.WF
  | .nil, _, e, h => by simp [MElems.hiddenE] at h
  | .clear x r, wf, e, h => by
    simp only [MElems.WF] at wf
    simp only [MElems.hiddenE, List.mem_append] at h
    exact h.elim (MJ.hiddenE_wf x wf.1 e) (MElems.hiddenE_wf r wf.2 e)
  | .marked dg x r, wf, e, h => by
    simp only [MElems.WF] at wf
    simp only [MElems.hiddenE, List.mem_cons, List.mem_append] at h
    rcases h with h | h | h
    · subst h; exact wf.1
    · exact MJ.hiddenE_wf x wf.1 e h
    · exact MElems.hiddenE_wf r wf.2 e h
  | .decoy dg r, wf, e, h => by
    simp only [MElems.WF] at wf
    exact MElems.hiddenE_wf r wf e (by simpa [MElems.hiddenE] using h)
theorem MMems.hiddenE_wf : (ms : MMems) → ms.WF → ∀ e ∈ ms.hiddenE, e.2.WF
  | .nil, _, e, h => by simp [MMems.hiddenE] at h
  | .clear k x r, wf, e, h => by
    simp only [MMems.WF] at wf
    simp only [MMems.hiddenE, List.mem_append] at h
    exact h.elim (MJ.hiddenE_wf x wf.2.2.1 e) (MMems.hiddenE_wf r wf.2.2.2.2 e)
  | .marked k dg x r, wf, e, h => by
    simp only [MMems.WF] at wf
    simp only [MMems.hiddenE, List.mem_cons, List.mem_append] at h
    rcases h with h | h | h
    · subst h; exact wf.2.2.1
    · exact MJ.hiddenE_wf x wf.2.2.1 e h
    · exact MMems.hiddenE_wf r wf.2.2.2.2 e h
end

/-- a selection of distinct entries of `H` contributes no digest more often than `H` does -/
theorem count_hiddenFlat_le (a : String) : (E H : List (String × MJ)) → (H.map (·.1)).Nodup →
    (∀ e ∈ E, e ∈ H) → (E.map (·.1)).Nodup → (hiddenFlat E).count a ≤ (hiddenFlat H).count a
  | [], _, _, _, _ => by simp [hiddenFlat]
  | e :: E', H, hH, hsub, hE => by
    have he : e ∈ H := hsub e (by simp)
    obtain ⟨H1, H2, rfl⟩ := List.append_of_mem he
    simp only [List.map_cons, List.nodup_cons] at hE
    have hH' : ((H1 ++ H2).map (·.1)).Nodup := by
      simp only [List.map_append, List.map_cons] at hH ⊢
      rw [List.nodup_append] at hH ⊢
      refine ⟨hH.1, (List.nodup_cons.mp hH.2.1).2, ?_⟩
      intro x hx1 y hy2 hxy
      exact hH.2.2 x hx1 y (by simp [hy2]) hxy
    have hsub' : ∀ x ∈ E', x ∈ H1 ++ H2 := by
      intro x hx
      have hxH := hsub x (by simp [hx])
      simp only [List.mem_append, List.mem_cons] at hxH ⊢
      rcases hxH with h | h | h
      · left; exact h
      · exfalso
        apply hE.1
        simp only [List.mem_map]
        exact ⟨x, hx, by rw [h]⟩
      · right; exact h
    have ih := count_hiddenFlat_le a E' (H1 ++ H2) hH' hsub' hE.2
    simp only [hiddenFlat_cons, hiddenFlat_append, List.count_append] at ih ⊢
    omega

theorem nodup_select (A : List String) (E H : List (String × MJ)) (hH : (H.map (·.1)).Nodup)
    (hsub : ∀ e ∈ E, e ∈ H) (hE : (E.map (·.1)).Nodup) (h : (A ++ hiddenFlat H).Nodup) :
    (A ++ hiddenFlat E).Nodup := by
  rw [List.nodup_iff_count] at h ⊢
  intro a
  have h1 := h a
  have h2 := count_hiddenFlat_le a E H hH hsub hE
  simp only [List.count_append] at h1 ⊢
  omega
