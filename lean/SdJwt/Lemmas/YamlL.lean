import SdJwt.Impl.Yaml
/-! YAML lemmas: totality of the tag walk. -/
namespace Impl

theorem keyKind_noPanic (k : Y) : (keyKind k).NoPanic := by
  unfold keyKind
  split
  · split
    · split <;> simp [Outcome.NoPanic]
    · simp [Outcome.NoPanic]
  · simp [Outcome.NoPanic]
  · simp [Outcome.NoPanic]

theorem stripItemTag_noPanic (x : Y) (ps : List String) : (stripItemTag x ps).NoPanic := by
  unfold stripItemTag
  split
  · split
    · split <;> simp [Outcome.NoPanic]
    · simp [Outcome.NoPanic]
  · simp [Outcome.NoPanic]

theorem collect_noPanic (path : List String) (y : Y) : (collect path y).NoPanic := by
  apply collect.induct
    (motive_1 := fun path kvs => (collect.collectM path kvs).NoPanic)
    (motive_2 := fun path y => (collect path y).NoPanic)
    (motive_3 := fun path i xs => (collect.collectS path i xs).NoPanic)
  all_goals (intros; simp_all [collect, collect.collectM, collect.collectS, Outcome.NoPanic])
  all_goals first
    | exact absurd ‹keyKind _ = Outcome.panic› (keyKind_noPanic _)
    | exact absurd ‹stripItemTag _ _ = Outcome.panic› (stripItemTag_noPanic _ _)
    | (split <;> simp)

theorem parseYaml_noPanic (doc : Y) : (parseYaml doc).NoPanic := by
  unfold parseYaml
  have h := collect_noPanic [] doc
  cases hc : collect [] doc with
  | panic => exact absurd hc h
  | err e => simp [Outcome.NoPanic]
  | ok r => obtain ⟨d, ps⟩ := r; simp only; split <;> simp [Outcome.NoPanic]

end Impl
