import SdJwt.Lemmas.EndToEnd
/-! A concrete instance (claims, digest function, runtime) used by the non-vacuity examples of the
end-to-end theorems. -/
open Impl Spec Assoc

/-- the instance used to show that the hypotheses of `C01_end_to_end` can be met -/
def exMs : MMems := .clear "a" (.leaf (.num 1 0))
  (.clear "n" (.arr (.clear (.leaf (.str "x")) (.clear (.leaf (.str "y")) .nil))) .nil)
def exMk : Nat → Option String → J → String := fun i _ _ => "dg" ++ toString i
def exRt : Rt where
  hash := fun _ s => s
  decodeDisc := fun s =>
    if s = "dg0" then some (.arr [.str "s0", .str "y"])
    else if s = "dg1" then some (.arr [.str "s1", .str "a", .num 1 0]) else none
  decodeClaims := fun _ => none
  jwtDecode := fun _ => match encode (MJ.obj exMs none).payload ["/n/1", "/a"] exMk none none with
    | .ok (p, _) => .ok (.null, p)
    | _ => .err .decoding
  kbDecode := fun _ _ => .err .decoding

