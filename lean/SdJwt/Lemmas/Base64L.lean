import SdJwt.Impl.Base64
/-!
# base64url: `enc` and `dec` are inverse to each other

`dec_enc`: every byte string survives the round trip. `enc_dec`: decoding is *canonical* — a string
that decodes is the encoding of what it decodes to, so no two strings decode to the same bytes
(`dec_injective`). `enc_alphabet`: an encoding consists of alphabet characters only; in particular
it contains no `~`, no `.` and no `=` (`enc_no_tilde`, `enc_no_dot`, `enc_no_pad`). `enc_length`:
`⌈4n/3⌉` characters for `n` bytes (43 for a SHA-256 digest or a 32-byte decoy, 22 for a 16-byte salt).
-/
namespace B64

theorem char_le_iff (a b : Char) : a ≤ b ↔ a.toNat ≤ b.toNat := by
  rw [Char.le_def, UInt32.le_iff_toNat_le]; rfl

theorem val_sextet_fin : ∀ n : Fin 64, val (sextet n.val) = some n.val := by decide

theorem val_sextet (n : Nat) (h : n < 64) : val (sextet n) = some n := val_sextet_fin ⟨n, h⟩

theorem sextet_of_val (c : Char) (v : Nat) (h : val c = some v) : v < 64 ∧ sextet v = c := by
  unfold val at h
  have hc : Char.ofNat c.toNat = c := Char.ofNat_toNat c
  simp only [char_le_iff] at h
  have e1 : 'A'.toNat = 65 := by decide
  have e2 : 'Z'.toNat = 90 := by decide
  have e3 : 'a'.toNat = 97 := by decide
  have e4 : 'z'.toNat = 122 := by decide
  have e5 : '0'.toNat = 48 := by decide
  have e6 : '9'.toNat = 57 := by decide
  simp only [e1, e2, e3, e4, e5, e6] at h
  split at h
  · rename_i h1
    simp at h; subst h
    refine ⟨by omega, ?_⟩
    unfold sextet
    rw [if_pos (by omega)]
    have : c.toNat - 65 + 65 = c.toNat := by omega
    rw [this, hc]
  split at h
  · rename_i h1
    simp at h; subst h
    refine ⟨by omega, ?_⟩
    unfold sextet
    rw [if_neg (by omega), if_pos (by omega)]
    have : c.toNat - 97 + 26 + 71 = c.toNat := by omega
    rw [this, hc]
  split at h
  · rename_i h1
    simp at h; subst h
    refine ⟨by omega, ?_⟩
    unfold sextet
    rw [if_neg (by omega), if_neg (by omega), if_pos (by omega)]
    have : c.toNat - 48 + 52 - 4 = c.toNat := by omega
    rw [this, hc]
  split at h
  · simp at h; subst h; rename_i h1; subst h1; decide
  split at h
  · simp at h; subst h; rename_i h1; subst h1; decide
  · simp at h

theorem u8_of (a : UInt8) (n : Nat) (h : n = a.toNat) : UInt8.ofNat n = a := by
  subst h; exact UInt8.ofNat_toNat

theorem u8n (n : Nat) : (UInt8.ofNat n).toNat = n % 256 := by simp

/-- **round trip**: `URL_SAFE_NO_PAD.decode(URL_SAFE_NO_PAD.encode(bs)) = Ok(bs)` for every `bs` -/
theorem dec_enc (bs : List UInt8) : dec (enc bs) = some bs := by
  fun_induction enc bs with
  | case1 a b c r x ih =>
    have ha := a.toNat_lt; have hb := b.toNat_lt; have hc := c.toNat_lt
    simp only [dec, val_sextet _ (Nat.mod_lt _ (by decide : 64 > 0)), ih]
    congr 2
    · apply u8_of; omega
    congr 1
    · apply u8_of; omega
    congr 1
    · apply u8_of; omega
  | case2 a b x =>
    have ha := a.toNat_lt; have hb := b.toNat_lt
    simp only [dec, val_sextet _ (Nat.mod_lt _ (by decide : 64 > 0))]
    rw [if_pos (by omega)]
    congr 2
    · apply u8_of; omega
    congr 1
    · apply u8_of; omega
  | case3 a x =>
    have ha := a.toNat_lt
    simp only [dec, val_sextet _ (Nat.mod_lt _ (by decide : 64 > 0))]
    rw [if_pos (by omega)]
    congr 2
    · apply u8_of; omega
  | case4 => rfl

theorem quad (v0 v1 v2 v3 : Nat) (l0 : v0 < 64) (l1 : v1 < 64) (l2 : v2 < 64) (l3 : v3 < 64) :
    let x := v0 * 262144 + v1 * 4096 + v2 * 64 + v3
    let y := (x / 65536 % 256) * 65536 + (x / 256 % 256) * 256 + x % 256
    y / 262144 % 64 = v0 ∧ y / 4096 % 64 = v1 ∧ y / 64 % 64 = v2 ∧ y % 64 = v3 := by
  intro x y; omega

/-- **decoding is canonical**: whatever decodes is the encoding of its decoding (the engine rejects
padding, foreign characters, a dangling character and non-zero trailing bits) -/
theorem enc_dec (s : List Char) (bs : List UInt8) (h : dec s = some bs) : enc bs = s := by
  fun_induction dec s generalizing bs with
  | case1 c0 c1 c2 c3 r v0 v1 v2 v3 t ht h3 h2 h1 h0 x ih =>
    simp at h; subst h
    obtain ⟨l0, e0⟩ := sextet_of_val _ _ h0
    obtain ⟨l1, e1⟩ := sextet_of_val _ _ h1
    obtain ⟨l2, e2⟩ := sextet_of_val _ _ h2
    obtain ⟨l3, e3⟩ := sextet_of_val _ _ h3
    obtain ⟨q0, q1, q2, q3⟩ := quad v0 v1 v2 v3 l0 l1 l2 l3
    simp only [enc, u8n, Nat.mod_mod, ih t ht]
    simp only [x, q0, q1, q2, q3, e0, e1, e2, e3]
  | case2 => simp_all
  | case3 c0 c1 c2 v0 v1 v2 h2 h1 h0 x hz =>
    obtain ⟨l0, e0⟩ := sextet_of_val _ _ h0
    obtain ⟨l1, e1⟩ := sextet_of_val _ _ h1
    obtain ⟨l2, e2⟩ := sextet_of_val _ _ h2
    simp at h; subst h
    have hx : x = v0 * 262144 + v1 * 4096 + v2 * 64 := rfl
    simp only [enc, u8n, Nat.mod_mod]
    have q0 : ((x / 65536 % 256) * 65536 + (x / 256 % 256) * 256) / 262144 % 64 = v0 := by omega
    have q1 : ((x / 65536 % 256) * 65536 + (x / 256 % 256) * 256) / 4096 % 64 = v1 := by omega
    have q2 : ((x / 65536 % 256) * 65536 + (x / 256 % 256) * 256) / 64 % 64 = v2 := by omega
    rw [q0, q1, q2, e0, e1, e2]
  | case4 => simp at h
  | case5 => simp at h
  | case6 c0 c1 v0 v1 h1 h0 x hz =>
    obtain ⟨l0, e0⟩ := sextet_of_val _ _ h0
    obtain ⟨l1, e1⟩ := sextet_of_val _ _ h1
    simp at h; subst h
    have hx : x = v0 * 262144 + v1 * 4096 := rfl
    simp only [enc, u8n, Nat.mod_mod]
    have q0 : ((x / 65536 % 256) * 65536) / 262144 % 64 = v0 := by omega
    have q1 : ((x / 65536 % 256) * 65536) / 4096 % 64 = v1 := by omega
    rw [q0, q1, e0, e1]
  | case7 => simp at h
  | case8 => simp at h
  | case9 => simp at h
  | case10 => simp at h; subst h; rfl

theorem enc_injective (a b : List UInt8) (h : enc a = enc b) : a = b := by
  have := dec_enc a; rw [h, dec_enc b] at this; exact (Option.some.inj this).symm

theorem dec_injective (s t : List Char) (bs : List UInt8) (hs : dec s = some bs) (ht : dec t = some bs) :
    s = t := by rw [← enc_dec s bs hs, ← enc_dec t bs ht]

/-- only alphabet characters decode -/
theorem dec_alphabet (s : List Char) (bs : List UInt8) (h : dec s = some bs) :
    ∀ c ∈ s, ∃ v, val c = some v := by
  fun_induction dec s generalizing bs with
  | case1 c0 c1 c2 c3 r v0 v1 v2 v3 t ht h3 h2 h1 h0 x ih =>
    intro c hc
    simp only [List.mem_cons] at hc
    rcases hc with rfl | rfl | rfl | rfl | hc
    · exact ⟨_, h0⟩
    · exact ⟨_, h1⟩
    · exact ⟨_, h2⟩
    · exact ⟨_, h3⟩
    · exact ih t ht c hc
  | case2 => simp_all
  | case3 c0 c1 c2 v0 v1 v2 h2 h1 h0 x hz =>
    intro c hc
    simp only [List.mem_cons, List.not_mem_nil, or_false] at hc
    rcases hc with rfl | rfl | rfl
    · exact ⟨_, h0⟩
    · exact ⟨_, h1⟩
    · exact ⟨_, h2⟩
  | case4 => simp at h
  | case5 => simp at h
  | case6 c0 c1 v0 v1 h1 h0 x hz =>
    intro c hc
    simp only [List.mem_cons, List.not_mem_nil, or_false] at hc
    rcases hc with rfl | rfl
    · exact ⟨_, h0⟩
    · exact ⟨_, h1⟩
  | case7 => simp at h
  | case8 => simp at h
  | case9 => simp at h
  | case10 => intro c hc; simp at hc

/-- an encoding consists of alphabet characters -/
theorem enc_alphabet (bs : List UInt8) : ∀ c ∈ enc bs, ∃ v, val c = some v :=
  dec_alphabet _ bs (dec_enc bs)

theorem enc_no_tilde (bs : List UInt8) : '~' ∉ enc bs := by
  intro h; obtain ⟨v, hv⟩ := enc_alphabet bs _ h
  have : val '~' = none := by decide
  rw [this] at hv; cases hv

theorem enc_no_dot (bs : List UInt8) : '.' ∉ enc bs := by
  intro h; obtain ⟨v, hv⟩ := enc_alphabet bs _ h
  have : val '.' = none := by decide
  rw [this] at hv; cases hv

theorem enc_no_pad (bs : List UInt8) : '=' ∉ enc bs := by
  intro h; obtain ⟨v, hv⟩ := enc_alphabet bs _ h
  have : val '=' = none := by decide
  rw [this] at hv; cases hv

/-- `⌈4n/3⌉` characters for `n` bytes -/
theorem enc_length (bs : List UInt8) : (enc bs).length = (4 * bs.length + 2) / 3 := by
  fun_induction enc bs with
  | case1 a b c r x ih => simp only [List.length_cons, ih]; omega
  | case2 => simp
  | case3 => simp
  | case4 => rfl

/-- strings of a length that is 1 modulo 4 never decode -/
theorem dec_length (s : List Char) (bs : List UInt8) (h : dec s = some bs) : s.length % 4 ≠ 1 := by
  rw [← enc_dec s bs h, enc_length]; omega

/-- the strings the standard alphabet or padding would give are rejected outright -/
theorem dec_rejects_foreign (s : List Char) (c : Char) (hc : c ∈ s) (hv : val c = none) : dec s = none := by
  cases h : dec s with
  | none => rfl
  | some bs => obtain ⟨v, hv'⟩ := dec_alphabet s bs h c hc; rw [hv] at hv'; cases hv'

end B64
