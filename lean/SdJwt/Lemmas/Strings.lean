import SdJwt.Impl.Parts
import SdJwt.Lemmas.Total
/-! Lemmas about `splitOn` / `joinWith` / `dropKb` over `List Char`. -/
namespace Impl

theorem splitOn_of_not_mem (c : Char) : (s : List Char) → c ∉ s → splitOn c s = [s]
  | [], _ => rfl
  | x :: xs, h => by
    have hx : x ≠ c := fun e => h (by simp [e])
    have hxs : c ∉ xs := fun m => h (by simp [m])
    simp [splitOn, hx, splitOn_of_not_mem c xs hxs]

/-- joining the pieces gives the string back -/
theorem joinWith_splitOn (c : Char) : (s : List Char) → joinWith c (splitOn c s) = s
  | [] => rfl
  | x :: xs => by
    have ih := joinWith_splitOn c xs
    have hne := splitOn_ne_nil c xs
    unfold splitOn
    split
    · rename_i h
      cases hs : splitOn c xs with
      | nil => exact absurd hs hne
      | cons a r =>
        rw [hs] at ih
        simp only [joinWith]
        rw [h]
        simpa using ih
    · cases hs : splitOn c xs with
      | nil => exact absurd hs hne
      | cons a r =>
        rw [hs] at ih
        cases r with
        | nil => simp [joinWith] at ih ⊢; exact ih
        | cons b r' =>
          simp only [joinWith] at ih ⊢
          simp [ih]

/-- no piece contains the separator -/
theorem splitOn_no_sep (c : Char) : (s : List Char) → ∀ p ∈ splitOn c s, c ∉ p
  | [], p, hp => by simp [splitOn] at hp; simp [hp]
  | x :: xs, p, hp => by
    have ih := splitOn_no_sep c xs
    have hne := splitOn_ne_nil c xs
    unfold splitOn at hp
    split at hp
    · simp at hp
      rcases hp with rfl | hp
      · simp
      · exact ih p hp
    · rename_i hx
      cases hs : splitOn c xs with
      | nil => exact absurd hs hne
      | cons a r =>
        rw [hs] at hp ih
        simp at hp
        rcases hp with rfl | hp
        · intro hm
          simp at hm
          rcases hm with rfl | hm
          · exact hx rfl
          · exact ih a (by simp) hm
        · exact ih p (by simp [hp])

/-- splitting a string that ends with the separator followed by a separator-free tail -/
theorem splitOn_append_sep (c : Char) : (s t : List Char) → c ∉ t →
    splitOn c (s ++ c :: t) = splitOn c s ++ [t]
  | [], t, ht => by simp [splitOn, splitOn_of_not_mem c t ht]
  | x :: xs, t, ht => by
    have ih := splitOn_append_sep c xs t ht
    have hne := splitOn_ne_nil c xs
    simp only [List.cons_append, splitOn]
    split
    · simp [ih]
    · rw [ih]
      cases hs : splitOn c xs with
      | nil => exact absurd hs hne
      | cons a r => simp

theorem joinWith_append_singleton (c : Char) : (l : List (List Char)) → l ≠ [] → (t : List Char) →
    joinWith c (l ++ [t]) = joinWith c l ++ c :: t
  | [], h, _ => absurd rfl h
  | [a], _, t => by simp [joinWith]
  | a :: b :: r, _, t => by
    have := joinWith_append_singleton c (b :: r) (by simp) t
    simp only [List.cons_append] at this ⊢
    simp [joinWith, this]

/-- `drop_kb` on a presentation `pre ++ "~" ++ kb` with `~`-free `kb` is exactly `pre ++ "~"`:
everything up to and including the last `~`. -/
theorem dropKb_append (pre kb : List Char) (hkb : '~' ∉ kb) :
    dropKb (pre ++ '~' :: kb) = pre ++ ['~'] := by
  unfold dropKb
  rw [splitOn_append_sep '~' pre kb hkb]
  have hne := splitOn_ne_nil '~' pre
  have hlen : (splitOn '~' pre).length ≥ 1 := by
    cases h : splitOn '~' pre with
    | nil => exact absurd h hne
    | cons a r => simp
  simp only [List.length_append, List.length_cons, List.length_nil]
  have h2 : ¬ ((splitOn '~' pre).length + (0 + 1) < 2) := by omega
  simp only [h2, if_false]
  have : (splitOn '~' pre ++ [kb]).take ((splitOn '~' pre).length + (0 + 1) - 1) = splitOn '~' pre := by
    simp
  rw [this, joinWith_splitOn]

/-- a string without `~` is returned unchanged -/
theorem dropKb_no_sep (s : List Char) (h : '~' ∉ s) : dropKb s = s := by
  unfold dropKb
  simp [splitOn_of_not_mem '~' s h]

end Impl
