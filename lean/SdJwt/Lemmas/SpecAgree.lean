import SdJwt.Lemmas.RefSound
import SdJwt.Lemmas.Finish
import SdJwt.Lemmas.EndToEnd
/-!
# The library's restorer and the specification's algorithm agree on conformant SD-JWTs
-/
open Assoc Spec
namespace Impl

/-- a string that decodes to the JSON array of a disclosure of a conformant tree is read by
`Disclosure::from_base64` as that disclosure -/
theorem fromBase64_discJ (env : Env) (T : MJ) (wf : T.WF) (s : String) (e : SDisc) (salt : J)
    (he : e ∈ T.discs) (hd : env.decodeDisc s = some (Ref.discJ salt e)) (hh : env.hash s = e.digest) :
    fromBase64 env s = .ok ⟨s, e.digest, e.key, e.value⟩ := by
  unfold fromBase64
  rw [hd]
  unfold Ref.discJ
  cases hk : e.key with
  | none => simp [hh]
  | some k =>
    obtain ⟨h1, h2⟩ := Ref.MJ.discs_key_ok T wf e he k hk
    simp [h1, h2, hh]

/-- **The restorer does what the specification says.** For every conformant tree with pairwise
distinct digests and ANY selection of its disclosures presented as strings in ANY order (each
string decoding to the JSON array of its disclosure and hashing to its digest): the library's
restorer accepts, the specification's algorithm accepts, and — after the library's stripping and
dropping of `_sd_alg` — they return the same claims. -/
theorem restore_agrees_with_spec (env : Env) (T : MJ) (inv : TreeInv T)
    (sub : List (String × SDisc × J))
    (hsub : ∀ p ∈ sub, p.2.1 ∈ T.discs ∧ p.2.1.digest ∉ T.deepStale ∧
      env.decodeDisc p.1 = some (Ref.discJ p.2.2 p.2.1) ∧ env.hash p.1 = p.2.1.digest)
    (hnd : (sub.map (·.2.1.digest)).Nodup) :
    ∃ c ps, restoreAll env T.payload (sub.map (·.1)) = .ok (c, ps) ∧
      Ref.verify false T.payload (Ref.tblOf (sub.map (fun p => (p.2.1, p.2.2)))) = .ok (removeDigests c) := by
  have hhash : (sub.map (·.1)).map env.hash = sub.map (·.2.1.digest) := by
    rw [List.map_map]
    apply List.map_congr_left
    intro p hp
    exact (hsub p hp).2.2.2
  obtain ⟨c, ps, hr, hc⟩ := restore_own env T inv (sub.map (·.1)) (by
      intro s hs
      obtain ⟨p, hp, rfl⟩ := List.mem_map.mp hs
      obtain ⟨h1, h2, h3, h4⟩ := hsub p hp
      exact ⟨p.2.1, h1, h2, fromBase64_discJ env T inv.wf p.1 p.2.1 p.2.2 h1 h3 h4⟩)
    (by rw [hhash]; exact hnd)
  refine ⟨c, ps, hr, ?_⟩
  have hv := Ref.verify_own T inv.wf inv.nd inv.ndm (sub.map (fun p => (p.2.1, p.2.2)))
    (by
      intro q hq
      obtain ⟨p, hp, rfl⟩ := List.mem_map.mp hq
      exact ⟨(hsub p hp).1, (hsub p hp).2.1⟩)
    (by simpa [List.map_map, Function.comp_def] using hnd)
  rw [hv, removeDigests_eq, hc]
  -- the two selections are the same
  have hsel : (fun g => (sub.map (fun p => (p.2.1, p.2.2))).any (fun p => decide (p.1.digest = g))) =
      (fun g => (sub.map (·.1)).any (fun s => decide (env.hash s = g))) := by
    funext g
    rw [List.any_map, List.any_map]
    apply Bool.eq_iff_iff.mpr
    simp only [List.any_eq_true, Function.comp, decide_eq_true_eq]
    constructor
    · rintro ⟨p, hp, e⟩; exact ⟨p, hp, by rw [(hsub p hp).2.2.2]; exact e⟩
    · rintro ⟨p, hp, e⟩; exact ⟨p, hp, by rw [← (hsub p hp).2.2.2]; exact e⟩
  rw [hsel]
  cases T.project (fun g => (sub.map (·.1)).any (fun s => decide (env.hash s = g))) <;> rfl

end Impl
