import SdJwt.Spec.Marked
import SdJwt.Lemmas.Marks
/-!
# The pointers the restoring walk reports are the pointers of the marked nodes

`T.paths p` lists (JSON pointer, digest) of every marked node of `T`.  One walk reports
`T.tpaths g p`: the pointers of the *visible* nodes marked `g`.  Revealing a node moves nothing,
so what later walks report are still pointers of the original tree.
-/
open Spec

mutual
theorem MJ.tpaths_sub_paths (g : String) : (T : MJ) → (p : String) → ∀ q ∈ T.tpaths g p, (q, g) ∈ T.paths p
  | .leaf _, _, q, h => by simp [MJ.tpaths] at h
  | .arr xs, p, q, h => by
    simp only [MJ.tpaths] at h
    simpa [MJ.paths] using MElems.tpaths_sub_paths g xs p 0 q h
  | .obj ms _, p, q, h => by
    simp only [MJ.tpaths, List.mem_append] at h
    simp only [MJ.paths]
    rcases h with h | h
    · exact MMems.ownPaths_sub_paths g ms p q h
    · exact MMems.tpaths_sub_paths g ms p q h
theorem MElems.tpaths_sub_paths (g : String) : (xs : MElems) → (p : String) → (i : Nat) →
    ∀ q ∈ xs.tpaths g p i, (q, g) ∈ xs.paths p i
  | .nil, _, _, q, h => by simp [MElems.tpaths] at h
  | .clear x r, p, i, q, h => by
    simp only [MElems.tpaths, List.mem_append] at h
    simp only [MElems.paths, List.mem_append]
    rcases h with h | h
    · exact .inl (MJ.tpaths_sub_paths g x _ q h)
    · exact .inr (MElems.tpaths_sub_paths g r p (i+1) q h)
  | .marked dg x r, p, i, q, h => by
    simp only [MElems.tpaths, List.mem_append] at h
    simp only [MElems.paths, List.mem_cons, List.mem_append]
    rcases h with h | h
    · by_cases hd : dg = g
      · subst hd
        simp only [if_true, List.mem_singleton] at h
        exact .inl (by rw [h])
      · simp [hd] at h
    · exact .inr (.inr (MElems.tpaths_sub_paths g r p (i+1) q h))
  | .decoy _ r, p, i, q, h => by
    simp only [MElems.tpaths] at h
    simpa [MElems.paths] using MElems.tpaths_sub_paths g r p (i+1) q h
theorem MMems.tpaths_sub_paths (g : String) : (ms : MMems) → (p : String) →
    ∀ q ∈ ms.tpaths g p, (q, g) ∈ ms.paths p
  | .nil, _, q, h => by simp [MMems.tpaths] at h
  | .clear k x r, p, q, h => by
    simp only [MMems.tpaths, List.mem_append] at h
    simp only [MMems.paths, List.mem_append]
    rcases h with h | h
    · exact .inl (MJ.tpaths_sub_paths g x _ q h)
    · exact .inr (MMems.tpaths_sub_paths g r p q h)
  | .marked k dg x r, p, q, h => by
    simp only [MMems.tpaths] at h
    simp only [MMems.paths, List.mem_cons, List.mem_append]
    exact .inr (.inr (MMems.tpaths_sub_paths g r p q h))
theorem MMems.ownPaths_sub_paths (g : String) : (ms : MMems) → (p : String) →
    ∀ q ∈ ms.ownPaths g p, (q, g) ∈ ms.paths p
  | .nil, _, q, h => by simp [MMems.ownPaths] at h
  | .clear k x r, p, q, h => by
    simp only [MMems.ownPaths] at h
    simp only [MMems.paths, List.mem_append]
    exact .inr (MMems.ownPaths_sub_paths g r p q h)
  | .marked k dg x r, p, q, h => by
    simp only [MMems.ownPaths, List.mem_append] at h
    simp only [MMems.paths, List.mem_cons, List.mem_append]
    rcases h with h | h
    · by_cases hd : dg = g
      · subst hd; simp at h; exact .inl (by rw [h])
      · simp [hd] at h
    · exact .inr (.inr (MMems.ownPaths_sub_paths g r p q h))
end

mutual
/-- revealing moves nothing: the marked nodes that remain keep their pointers -/
theorem MJ.paths_revealTop (g : String) : (T : MJ) → (p : String) →
    ∀ e ∈ (T.revealTop g).paths p, e ∈ T.paths p
  | .leaf _, _, e, h => by simp [MJ.revealTop, MJ.paths] at h
  | .arr xs, p, e, h => by
    simp only [MJ.revealTop, MJ.paths] at h ⊢
    exact MElems.paths_revealTop g xs p 0 e h
  | .obj ms _, p, e, h => by
    simp only [MJ.revealTop, MJ.paths] at h ⊢
    exact MMems.paths_revealTop g ms p e h
theorem MElems.paths_revealTop (g : String) : (xs : MElems) → (p : String) → (i : Nat) →
    ∀ e ∈ (xs.revealTop g).paths p i, e ∈ xs.paths p i
  | .nil, _, _, e, h => by simp [MElems.revealTop, MElems.paths] at h
  | .clear x r, p, i, e, h => by
    simp only [MElems.revealTop, MElems.paths, List.mem_append] at h ⊢
    rcases h with h | h
    · exact .inl (MJ.paths_revealTop g x _ e h)
    · exact .inr (MElems.paths_revealTop g r p (i+1) e h)
  | .marked dg x r, p, i, e, h => by
    simp only [MElems.revealTop] at h
    simp only [MElems.paths, List.mem_cons, List.mem_append]
    by_cases hd : dg = g
    · simp only [hd, if_true, MElems.paths, List.mem_append] at h
      rcases h with h | h
      · exact .inr (.inl h)
      · exact .inr (.inr (MElems.paths_revealTop g r p (i+1) e h))
    · simp only [hd, if_false, MElems.paths, List.mem_cons, List.mem_append] at h
      rcases h with h | h | h
      · exact .inl h
      · exact .inr (.inl h)
      · exact .inr (.inr (MElems.paths_revealTop g r p (i+1) e h))
  | .decoy dg r, p, i, e, h => by
    simp only [MElems.revealTop, MElems.paths] at h ⊢
    exact MElems.paths_revealTop g r p (i+1) e h
theorem MMems.paths_revealTop (g : String) : (ms : MMems) → (p : String) →
    ∀ e ∈ (ms.revealTop g).paths p, e ∈ ms.paths p
  | .nil, _, e, h => by simp [MMems.revealTop, MMems.paths] at h
  | .clear k x r, p, e, h => by
    simp only [MMems.revealTop, MMems.paths, List.mem_append] at h ⊢
    rcases h with h | h
    · exact .inl (MJ.paths_revealTop g x _ e h)
    · exact .inr (MMems.paths_revealTop g r p e h)
  | .marked k dg x r, p, e, h => by
    simp only [MMems.revealTop] at h
    simp only [MMems.paths, List.mem_cons, List.mem_append]
    by_cases hd : dg = g
    · simp only [hd, if_true, MMems.paths, List.mem_append] at h
      rcases h with h | h
      · exact .inr (.inl h)
      · exact .inr (.inr (MMems.paths_revealTop g r p e h))
    · simp only [hd, if_false, MMems.paths, List.mem_cons, List.mem_append] at h
      rcases h with h | h | h
      · exact .inl h
      · exact .inr (.inl h)
      · exact .inr (.inr (MMems.paths_revealTop g r p e h))
end

mutual
/-- one walk reports one pointer per visible node marked `g` -/
theorem MJ.tpaths_length (g : String) : (T : MJ) → (p : String) → (T.tpaths g p).length = T.topMarks.count g
  | .leaf _, _ => by simp [MJ.tpaths, MJ.topMarks]
  | .arr xs, p => by simpa [MJ.tpaths, MJ.topMarks] using MElems.tpaths_length g xs p 0
  | .obj ms _, p => by
    simp only [MJ.tpaths, MJ.topMarks, List.length_append]
    exact MMems.tpaths_length g ms p
theorem MElems.tpaths_length (g : String) : (xs : MElems) → (p : String) → (i : Nat) →
    (xs.tpaths g p i).length = xs.topMarks.count g
  | .nil, _, _ => by simp [MElems.tpaths, MElems.topMarks]
  | .clear x r, p, i => by
    simp [MElems.tpaths, MElems.topMarks, List.count_append, MJ.tpaths_length g x, MElems.tpaths_length g r p (i+1)]
  | .marked dg x r, p, i => by
    by_cases hd : dg = g
    · simp [MElems.tpaths, MElems.topMarks, hd, MElems.tpaths_length g r p (i+1)]
    · simp [MElems.tpaths, MElems.topMarks, hd, List.count_cons, MElems.tpaths_length g r p (i+1)]
  | .decoy _ r, p, i => by
    simpa [MElems.tpaths, MElems.topMarks] using MElems.tpaths_length g r p (i+1)
theorem MMems.tpaths_length (g : String) : (ms : MMems) → (p : String) →
    (ms.ownPaths g p).length + (ms.tpaths g p).length = ms.topMarks.count g
  | .nil, _ => by simp [MMems.tpaths, MMems.ownPaths, MMems.topMarks]
  | .clear k x r, p => by
    have := MMems.tpaths_length g r p
    simp only [MMems.tpaths, MMems.ownPaths, MMems.topMarks, List.count_append, List.length_append,
      MJ.tpaths_length g x]
    omega
  | .marked k dg x r, p => by
    have := MMems.tpaths_length g r p
    by_cases hd : dg = g
    · simp only [MMems.tpaths, MMems.ownPaths, MMems.topMarks, hd, if_true, List.length_append,
        List.length_cons, List.length_nil, List.count_cons_self]
      omega
    · simp only [MMems.tpaths, MMems.ownPaths, MMems.topMarks, hd, if_false, List.nil_append,
        List.count_cons, beq_iff_eq]
      simp [hd]; omega
end

mutual
/-- revealing loses no mark other than the revealed one -/
theorem MJ.mem_allMarks_revealTop (g h : String) : (T : MJ) → h ∈ T.allMarks →
    h = g ∨ h ∈ (T.revealTop g).allMarks
  | .leaf _, hh => by simp [MJ.allMarks] at hh
  | .arr xs, hh => by
    simp only [MJ.allMarks, MJ.revealTop] at hh ⊢
    exact MElems.mem_allMarks_revealTop g h xs hh
  | .obj ms _, hh => by
    simp only [MJ.allMarks, MJ.revealTop] at hh ⊢
    exact MMems.mem_allMarks_revealTop g h ms hh
theorem MElems.mem_allMarks_revealTop (g h : String) : (xs : MElems) → h ∈ xs.allMarks →
    h = g ∨ h ∈ (xs.revealTop g).allMarks
  | .nil, hh => by simp [MElems.allMarks] at hh
  | .clear x r, hh => by
    simp only [MElems.allMarks, List.mem_append] at hh
    simp only [MElems.revealTop, MElems.allMarks, List.mem_append]
    rcases hh with hh | hh
    · exact (MJ.mem_allMarks_revealTop g h x hh).imp id .inl
    · exact (MElems.mem_allMarks_revealTop g h r hh).imp id .inr
  | .marked dg x r, hh => by
    simp only [MElems.allMarks, List.mem_cons, List.mem_append] at hh
    simp only [MElems.revealTop]
    by_cases hd : dg = g
    · simp only [hd, if_true, MElems.allMarks, List.mem_append]
      rcases hh with hh | hh | hh
      · exact .inl (hh.trans hd)
      · exact .inr (.inl hh)
      · exact (MElems.mem_allMarks_revealTop g h r hh).imp id .inr
    · simp only [hd, if_false, MElems.allMarks, List.mem_cons, List.mem_append]
      rcases hh with hh | hh | hh
      · exact .inr (.inl hh)
      · exact .inr (.inr (.inl hh))
      · exact (MElems.mem_allMarks_revealTop g h r hh).imp id (fun z => .inr (.inr z))
  | .decoy _ r, hh => by
    simp only [MElems.allMarks] at hh
    simpa [MElems.revealTop, MElems.allMarks] using MElems.mem_allMarks_revealTop g h r hh
theorem MMems.mem_allMarks_revealTop (g h : String) : (ms : MMems) → h ∈ ms.allMarks →
    h = g ∨ h ∈ (ms.revealTop g).allMarks
  | .nil, hh => by simp [MMems.allMarks] at hh
  | .clear k x r, hh => by
    simp only [MMems.allMarks, List.mem_append] at hh
    simp only [MMems.revealTop, MMems.allMarks, List.mem_append]
    rcases hh with hh | hh
    · exact (MJ.mem_allMarks_revealTop g h x hh).imp id .inl
    · exact (MMems.mem_allMarks_revealTop g h r hh).imp id .inr
  | .marked k dg x r, hh => by
    simp only [MMems.allMarks, List.mem_cons, List.mem_append] at hh
    simp only [MMems.revealTop]
    by_cases hd : dg = g
    · simp only [hd, if_true, MMems.allMarks, List.mem_append]
      rcases hh with hh | hh | hh
      · exact .inl (hh.trans hd)
      · exact .inr (.inl hh)
      · exact (MMems.mem_allMarks_revealTop g h r hh).imp id .inr
    · simp only [hd, if_false, MMems.allMarks, List.mem_cons, List.mem_append]
      rcases hh with hh | hh | hh
      · exact .inr (.inl hh)
      · exact .inr (.inr (.inl hh))
      · exact (MMems.mem_allMarks_revealTop g h r hh).imp id (fun z => .inr (.inr z))
end

mutual
/-- a tree with a mark has a visible mark -/
theorem MJ.top_of_mark : (T : MJ) → T.topMarks = [] → T.allMarks = []
  | .leaf _, _ => rfl
  | .arr xs, h => by simpa [MJ.allMarks] using MElems.top_of_mark xs (by simpa [MJ.topMarks] using h)
  | .obj ms _, h => by simpa [MJ.allMarks] using MMems.top_of_mark ms (by simpa [MJ.topMarks] using h)
theorem MElems.top_of_mark : (xs : MElems) → xs.topMarks = [] → xs.allMarks = []
  | .nil, _ => rfl
  | .clear x r, h => by
    simp only [MElems.topMarks, List.append_eq_nil_iff] at h
    simp [MElems.allMarks, MJ.top_of_mark x h.1, MElems.top_of_mark r h.2]
  | .marked dg x r, h => by simp [MElems.topMarks] at h
  | .decoy _ r, h => by
    simpa [MElems.allMarks] using MElems.top_of_mark r (by simpa [MElems.topMarks] using h)
theorem MMems.top_of_mark : (ms : MMems) → ms.topMarks = [] → ms.allMarks = []
  | .nil, _ => rfl
  | .clear k x r, h => by
    simp only [MMems.topMarks, List.append_eq_nil_iff] at h
    simp [MMems.allMarks, MJ.top_of_mark x h.1, MMems.top_of_mark r h.2]
  | .marked k dg x r, h => by simp [MMems.topMarks] at h
end

mutual
/-- the digests listed by `paths` are the marks, in the same order -/
theorem MJ.paths_snd : (T : MJ) → (p : String) → (T.paths p).map (·.2) = T.allMarks
  | .leaf _, _ => rfl
  | .arr xs, p => by simpa [MJ.paths, MJ.allMarks] using MElems.paths_snd xs p 0
  | .obj ms _, p => by simpa [MJ.paths, MJ.allMarks] using MMems.paths_snd ms p
theorem MElems.paths_snd : (xs : MElems) → (p : String) → (i : Nat) → (xs.paths p i).map (·.2) = xs.allMarks
  | .nil, _, _ => rfl
  | .clear x r, p, i => by simp [MElems.paths, MElems.allMarks, MJ.paths_snd x, MElems.paths_snd r p (i+1)]
  | .marked dg x r, p, i => by simp [MElems.paths, MElems.allMarks, MJ.paths_snd x, MElems.paths_snd r p (i+1)]
  | .decoy _ r, p, i => by simpa [MElems.paths, MElems.allMarks] using MElems.paths_snd r p (i+1)
theorem MMems.paths_snd : (ms : MMems) → (p : String) → (ms.paths p).map (·.2) = ms.allMarks
  | .nil, _ => rfl
  | .clear k x r, p => by simp [MMems.paths, MMems.allMarks, MJ.paths_snd x, MMems.paths_snd r p]
  | .marked k dg x r, p => by simp [MMems.paths, MMems.allMarks, MJ.paths_snd x, MMems.paths_snd r p]
end
