import SdJwt.Lemmas.MarkInv
import SdJwt.Lemmas.IssuedPaths
/-!
# When marking a list of paths is defined

`markAll … = some _` is the hypothesis of the issuance theorems ("valid marking").  Here it is
derived from the conditions the property itself names: every path addresses an existing, not yet
hidden member or element, tokens that address array elements being canonical decimals
(`Addressable`), no path repeats and no later path lies inside an earlier one (`NestedFirst`), and the
digests drawn are new (the digest function is injective in its draw counter and the claims carry
none of its values).

The core is `reaches_keeps`: hiding the node at address `a` leaves every address `b` that is
neither `a` nor inside `a` addressable.
-/
open Assoc Spec Path
namespace Impl

/-! ### the child accessors after replacing / marking another child -/

theorem getClear_setClear (k t : String) (y : MJ) : (ms : MMems) →
    (ms.setClear t y).getClear k = if k = t then (ms.getClear t).map (fun _ => y) else ms.getClear k
  | .nil => by simp [MMems.setClear, MMems.getClear]
  | .clear k' x r => by
    have ih := getClear_setClear k t y r
    by_cases h1 : k' = t
    · subst h1
      by_cases h2 : k = k'
      · subst h2; simp [MMems.setClear, MMems.getClear]
      · have h2' : ¬ k' = k := fun e => h2 e.symm
        simp [MMems.setClear, MMems.getClear, h2, h2']
    · by_cases h2 : k = t
      · subst h2
        simp [MMems.setClear, MMems.getClear, h1, ih]
      · by_cases h3 : k' = k
        · subst h3; simp [MMems.setClear, MMems.getClear, h1, h2]
        · simp [MMems.setClear, MMems.getClear, h1, h2, h3, ih]
  | .marked k' dg x r => by
    simpa [MMems.setClear, MMems.getClear] using getClear_setClear k t y r

theorem getClear_toMarked_ne (k t dg : String) (hk : k ≠ t) : (ms : MMems) →
    (ms.toMarked t dg).getClear k = ms.getClear k
  | .nil => by simp [MMems.toMarked, MMems.getClear]
  | .clear k' x r => by
    have ih := getClear_toMarked_ne k t dg hk r
    by_cases h1 : k' = t
    · subst h1
      have : ¬ k' = k := fun e => hk e.symm
      simp [MMems.toMarked, MMems.getClear, this]
    · by_cases h3 : k' = k
      · subst h3; simp [MMems.toMarked, MMems.getClear, h1]
      · simp [MMems.toMarked, MMems.getClear, h1, h3, ih]
  | .marked k' dg' x r => by
    simpa [MMems.toMarked, MMems.getClear] using getClear_toMarked_ne k t dg hk r

theorem getClearAt_setClearAt (y : MJ) : (i j : Nat) → (xs : MElems) →
    (xs.setClearAt y i).getClearAt j = if j = i then (xs.getClearAt i).map (fun _ => y) else xs.getClearAt j
  | _, _, .nil => by simp [MElems.setClearAt, MElems.getClearAt]
  | 0, 0, .clear x r => by simp [MElems.setClearAt, MElems.getClearAt]
  | 0, 0, .marked dg x r => by simp [MElems.setClearAt, MElems.getClearAt]
  | 0, 0, .decoy dg r => by simp [MElems.setClearAt, MElems.getClearAt]
  | 0, j+1, .clear x r => by simp [MElems.setClearAt, MElems.getClearAt]
  | 0, j+1, .marked dg x r => by simp [MElems.setClearAt, MElems.getClearAt]
  | 0, j+1, .decoy dg r => by simp [MElems.setClearAt, MElems.getClearAt]
  | i+1, 0, .clear x r => by simp [MElems.setClearAt, MElems.getClearAt]
  | i+1, 0, .marked dg x r => by simp [MElems.setClearAt, MElems.getClearAt]
  | i+1, 0, .decoy dg r => by simp [MElems.setClearAt, MElems.getClearAt]
  | i+1, j+1, .clear x r => by simpa [MElems.setClearAt, MElems.getClearAt] using getClearAt_setClearAt y i j r
  | i+1, j+1, .marked dg x r => by simpa [MElems.setClearAt, MElems.getClearAt] using getClearAt_setClearAt y i j r
  | i+1, j+1, .decoy dg r => by simpa [MElems.setClearAt, MElems.getClearAt] using getClearAt_setClearAt y i j r

theorem getClearAt_toMarkedAt_ne (dg : String) : (i j : Nat) → j ≠ i → (xs : MElems) →
    (xs.toMarkedAt dg i).getClearAt j = xs.getClearAt j
  | _, _, _, .nil => by simp [MElems.toMarkedAt, MElems.getClearAt]
  | 0, 0, h, _ => absurd rfl h
  | 0, j+1, _, .clear x r => by simp [MElems.toMarkedAt, MElems.getClearAt]
  | 0, j+1, _, .marked dg' x r => by simp [MElems.toMarkedAt, MElems.getClearAt]
  | 0, j+1, _, .decoy dg' r => by simp [MElems.toMarkedAt, MElems.getClearAt]
  | i+1, 0, _, .clear x r => by simp [MElems.toMarkedAt, MElems.getClearAt]
  | i+1, 0, _, .marked dg' x r => by simp [MElems.toMarkedAt, MElems.getClearAt]
  | i+1, 0, _, .decoy dg' r => by simp [MElems.toMarkedAt, MElems.getClearAt]
  | i+1, j+1, h, .clear x r => by
    simpa [MElems.toMarkedAt, MElems.getClearAt] using getClearAt_toMarkedAt_ne dg i j (by omega) r
  | i+1, j+1, h, .marked dg' x r => by
    simpa [MElems.toMarkedAt, MElems.getClearAt] using getClearAt_toMarkedAt_ne dg i j (by omega) r
  | i+1, j+1, h, .decoy dg' r => by
    simpa [MElems.toMarkedAt, MElems.getClearAt] using getClearAt_toMarkedAt_ne dg i j (by omega) r

/-! ### canonical index tokens: different tokens, different indices -/

theorem canon_ne {a b : String} {i j : Nat} (ha : a = toString i) (hb : b = toString j) (h : a ≠ b) : i ≠ j := by
  intro e; subst e; exact h (ha.trans hb.symm)

/-! ### whether an address can be marked: a function of the tree alone -/

/-- a token used at an array node is the canonical decimal of the index it denotes (`1`, not `01`
or `+1`, which `usize::from_str` reads as the same index); at an object node every name is itself -/
def canonTok (t : String) : MJ → Bool
  | .arr _ => match pI t with
    | some i => decide (t = toString i)
    | none => true
  | _ => true

/-- `last` names a clear child of this node that may be hidden (not a reserved member name; an
index in canonical form) -/
def canMarkChild (last : String) : MJ → Bool
  | .obj ms _ => if last = "_sd" ∨ last = "..." then false else (ms.getClear last).isSome
  | .arr xs => match pU last with
    | none => false
    | some i => decide (last = toString i) && (xs.getClearAt i).isSome
  | .leaf _ => false

/-- `toks` leads through clear nodes to a node of which `last` is a clear child that may be hidden -/
def reaches : List String → String → MJ → Bool
  | [], last, T => canMarkChild last T
  | t :: r, last, T => canonTok t T && match T.child pI t with
    | none => false
    | some x => reaches r last x

theorem markChild_of_can (mk : Option String → J → String) (last : String) (T : MJ)
    (h : canMarkChild last T = true) : ∃ r, T.markChild pU mk last = some r := by
  cases T with
  | leaf j => simp [canMarkChild] at h
  | arr xs =>
    simp only [canMarkChild] at h
    simp only [MJ.markChild]
    cases hp : pU last with
    | none => simp [hp] at h
    | some i =>
      simp only [hp, Bool.and_eq_true] at h
      cases hg : xs.getClearAt i with
      | none => simp [hg] at h
      | some x => exact ⟨_, by simp only [hg]; rfl⟩
  | obj ms sd =>
    simp only [canMarkChild] at h
    simp only [MJ.markChild]
    by_cases hr : last = "_sd" ∨ last = "..."
    · simp [hr] at h
    · simp only [hr, if_false] at h ⊢
      cases hg : ms.getClear last with
      | none => simp [hg] at h
      | some x => exact ⟨_, by simp only [hg]; rfl⟩

theorem markIn_of_reaches (mk : Option String → J → String) (last : String) :
    (toks : List String) → (T : MJ) → reaches toks last T = true →
    ∃ r, MJ.markIn pI pU mk toks last T = some r
  | [], T, h => by simpa [MJ.markIn] using markChild_of_can mk last T (by simpa [reaches] using h)
  | t :: r, T, h => by
    simp only [reaches, Bool.and_eq_true] at h
    simp only [MJ.markIn]
    cases hc : T.child pI t with
    | none => simp [hc] at h
    | some x =>
      simp only [hc] at h
      obtain ⟨⟨x', d⟩, hm⟩ := markIn_of_reaches mk last r x h.2
      exact ⟨(MJ.setChild pI t x' T, d), by simp only [hm]⟩

/-- the address `(toks, last)` reaches, through nodes not hidden so far, a member or element not
hidden so far (and not a reserved member name), the tokens that address array elements being
canonical decimals: then `build_disclosure` succeeds on it -/
def Addressable (T : MJ) (a : List String × String) : Prop := reaches a.1 a.2 T = true

theorem addressable_markIn (mk : Option String → J → String) (T : MJ) (a : List String × String)
    (h : Addressable T a) : ∃ r, MJ.markIn pI pU mk a.1 a.2 T = some r :=
  markIn_of_reaches mk a.2 a.1 T h

/-- the digest of the disclosure made is a value of the digest function -/
theorem markIn_digest_form (mk : Option String → J → String) (last : String) (toks : List String)
    (T T' : MJ) (d : SDisc) (h : MJ.markIn pI pU mk toks last T = some (T', d)) :
    ∃ k v, d.digest = mk k v := by
  refine markIn_ind (fun _ _ d => ∃ k v, d.digest = mk k v) mk ?_ ?_ ?_ ?_ last toks T T' d h
  · intro ms sd last x _ _; exact ⟨_, _, rfl⟩
  · intro xs i x _; exact ⟨_, _, rfl⟩
  · intro ms sd t x x' d _ ih; exact ih
  · intro xs i x x' d _ ih; exact ih

/-! ### hiding one node keeps every address outside it addressable -/

theorem child_setChild_same (t : String) (x x' : MJ) (T : MJ) (h : T.child pI t = some x) :
    (MJ.setChild pI t x' T).child pI t = some x' := by
  cases T with
  | leaf j => simp [MJ.child] at h
  | arr xs =>
    simp only [MJ.child] at h
    cases hp : pI t with
    | none => simp [hp] at h
    | some i =>
      simp only [hp, Option.bind_some] at h
      simp [MJ.setChild, MJ.child, hp, getClearAt_setClearAt, h]
  | obj ms sd =>
    simp only [MJ.child] at h
    simp [MJ.setChild, MJ.child, getClear_setClear, h]

theorem canonTok_arr {t : String} {xs : MElems} {i : Nat} (h : canonTok t (.arr xs) = true)
    (hp : pI t = some i) : t = toString i := by
  simpa [canonTok, hp] using h

theorem child_setChild_ne (t t' : String) (x' : MJ) (T : MJ) (ht : canonTok t T = true)
    (ht' : canonTok t' T = true) (hne : t' ≠ t) :
    (MJ.setChild pI t x' T).child pI t' = T.child pI t' := by
  cases T with
  | leaf j => simp [MJ.child, MJ.setChild]
  | arr xs =>
    simp only [MJ.setChild]
    cases hp : pI t with
    | none => rfl
    | some i =>
      simp only [MJ.child]
      cases hp' : pI t' with
      | none => rfl
      | some j =>
        have hij : j ≠ i := canon_ne (canonTok_arr ht' hp') (canonTok_arr ht hp) hne
        simp [getClearAt_setClearAt, hij]
  | obj ms sd =>
    simp [MJ.setChild, MJ.child, getClear_setClear, hne]

theorem canonTok_setChild (t t' : String) (x' : MJ) (T : MJ) :
    canonTok t' (MJ.setChild pI t x' T) = canonTok t' T := by
  cases T with
  | leaf j => rfl
  | arr xs =>
    simp only [MJ.setChild]
    cases pI t <;> rfl
  | obj ms sd => rfl

/-- what `markChild` does to the node, spelled out -/
theorem markChild_cases (mk : Option String → J → String) (last : String) (T T1 : MJ) (d : SDisc)
    (h : T.markChild pU mk last = some (T1, d)) :
    (∃ ms sd dg, T = .obj ms sd ∧ T1 = .obj (ms.toMarked last dg) (some (sd.getD [] ++ [dg]))) ∨
    (∃ xs i dg, T = .arr xs ∧ pU last = some i ∧ T1 = .arr (xs.toMarkedAt dg i)) := by
  cases T with
  | leaf j => simp [MJ.markChild] at h
  | arr xs =>
    simp only [MJ.markChild] at h
    cases hp : pU last with
    | none => simp [hp] at h
    | some i =>
      simp only [hp] at h
      cases hg : xs.getClearAt i with
      | none => simp [hg] at h
      | some x =>
        simp only [hg, Option.some.injEq, Prod.mk.injEq] at h
        exact .inr ⟨xs, i, _, rfl, rfl, h.1.symm⟩
  | obj ms sd =>
    simp only [MJ.markChild] at h
    by_cases hr : last = "_sd" ∨ last = "..."
    · simp [hr] at h
    · simp only [hr, if_false] at h
      cases hg : ms.getClear last with
      | none => simp [hg] at h
      | some x =>
        simp only [hg, Option.some.injEq, Prod.mk.injEq] at h
        exact .inl ⟨ms, sd, _, rfl, h.1.symm⟩

theorem reaches_keeps (mk : Option String → J → String) (last last' : String) :
    (toks toks' : List String) → (T T1 : MJ) → (d : SDisc) →
    reaches toks last T = true →
    MJ.markIn pI pU mk toks last T = some (T1, d) →
    reaches toks' last' T = true →
    ¬ (toks ++ [last]) <+: (toks' ++ [last']) →
    reaches toks' last' T1 = true
  | [], [], T, T1, d, ha, h, hb, hne => by
    -- two children of the same node: different tokens
    have hl : last' ≠ last := by
      intro e; subst e; exact hne (List.prefix_refl _)
    simp only [MJ.markIn] at h
    simp only [reaches] at ha hb ⊢
    rcases markChild_cases mk last T T1 d h with ⟨ms, sd, dg, rfl, rfl⟩ | ⟨xs, i, dg, rfl, hp, rfl⟩
    · simp only [canMarkChild] at hb ⊢
      rw [getClear_toMarked_ne last' last _ hl ms]
      exact hb
    · simp only [canMarkChild, hp, Bool.and_eq_true, decide_eq_true_eq] at ha
      simp only [canMarkChild] at hb ⊢
      cases hp' : pU last' with
      | none => simp [hp'] at hb
      | some j =>
        simp only [hp', Bool.and_eq_true, decide_eq_true_eq] at hb ⊢
        have hij : j ≠ i := canon_ne hb.1 ha.1 hl
        rw [getClearAt_toMarkedAt_ne _ i j hij xs]
        exact hb
  | [], t' :: r', T, T1, d, ha, h, hb, hne => by
    -- `b` goes through the child `t'`, which is not the child just hidden
    have hl : t' ≠ last := by
      intro e; subst e
      exact hne (by simp [List.cons_prefix_cons])
    simp only [MJ.markIn] at h
    simp only [reaches, Bool.and_eq_true] at ha hb ⊢
    rcases markChild_cases mk last T T1 d h with ⟨ms, sd, dg, rfl, rfl⟩ | ⟨xs, i, dg, rfl, hp, rfl⟩
    · refine ⟨rfl, ?_⟩
      have : (MJ.obj (ms.toMarked last dg) (some (sd.getD [] ++ [dg]))).child pI t' = (MJ.obj ms sd).child pI t' := by
        simp [MJ.child, getClear_toMarked_ne t' last _ hl ms]
      rw [this]; exact hb.2
    · simp only [canMarkChild, hp, Bool.and_eq_true, decide_eq_true_eq] at ha
      refine ⟨hb.1, ?_⟩
      have : (MJ.arr (xs.toMarkedAt dg i)).child pI t' = (MJ.arr xs).child pI t' := by
        simp only [MJ.child]
        cases hp' : pI t' with
        | none => rfl
        | some j =>
          have hij : j ≠ i := canon_ne (canonTok_arr hb.1 hp') ha.1 hl
          simp [getClearAt_toMarkedAt_ne _ i j hij xs]
      rw [this]; exact hb.2
  | t :: r, [], T, T1, d, ha, h, hb, hne => by
    -- `b` is a child of this node; replacing the content of a child keeps it a clear child
    simp only [MJ.markIn] at h
    simp only [reaches] at hb ⊢
    cases hc1 : T.child pI t with
    | none => simp [hc1] at h
    | some x =>
      simp only [hc1] at h
      cases hm : MJ.markIn pI pU mk r last x with
      | none => simp [hm] at h
      | some res =>
        obtain ⟨x', d'⟩ := res
        simp only [hm, Option.some.injEq, Prod.mk.injEq] at h
        obtain ⟨rfl, rfl⟩ := h
        cases T with
        | leaf j => simp [MJ.child] at hc1
        | arr xs =>
          simp only [MJ.child] at hc1
          cases hp : pI t with
          | none => simp [hp] at hc1
          | some i =>
            simp only [hp, Option.bind_some] at hc1
            simp only [canMarkChild] at hb
            simp only [MJ.setChild, hp, canMarkChild]
            cases hp' : pU last' with
            | none => simp [hp'] at hb
            | some j =>
              simp only [hp', Bool.and_eq_true, decide_eq_true_eq] at hb ⊢
              refine ⟨hb.1, ?_⟩
              rw [getClearAt_setClearAt]
              by_cases hji : j = i
              · subst hji; simp [hc1]
              · simpa [hji] using hb.2
        | obj ms sd =>
          simp only [MJ.child] at hc1
          simp only [canMarkChild] at hb
          simp only [MJ.setChild, canMarkChild]
          by_cases hr' : last' = "_sd" ∨ last' = "..."
          · simp [hr'] at hb
          · simp only [hr', if_false] at hb ⊢
            rw [getClear_setClear]
            by_cases hlt : last' = t
            · subst hlt; simp [hc1]
            · simpa [hlt] using hb
  | t :: r, t' :: r', T, T1, d, ha, h, hb, hne => by
    simp only [MJ.markIn] at h
    simp only [reaches, Bool.and_eq_true] at ha hb ⊢
    cases hc1 : T.child pI t with
    | none => simp [hc1] at h
    | some x =>
      simp only [hc1] at h ha
      cases hm : MJ.markIn pI pU mk r last x with
      | none => simp [hm] at h
      | some res =>
        obtain ⟨x', d'⟩ := res
        simp only [hm, Option.some.injEq, Prod.mk.injEq] at h
        obtain ⟨rfl, rfl⟩ := h
        refine ⟨by rw [canonTok_setChild]; exact hb.1, ?_⟩
        by_cases htt : t' = t
        · subst htt
          -- same child: the rest of `b` inside the updated child
          rw [child_setChild_same t' x x' T hc1]
          have hb2 := hb.2
          simp only [hc1] at hb2
          have hne' : ¬ (r ++ [last]) <+: (r' ++ [last']) := by
            intro hp
            exact hne (by simpa [List.cons_prefix_cons] using hp)
          exact reaches_keeps mk last last' r r' x x' d' ha.2 hm hb2 hne'
        · -- another child: untouched
          rw [child_setChild_ne t t' x' T ha.1 hb.1 htt]
          exact hb.2

/-! ### a list of paths -/

/-- no path repeats and no later path lies inside an earlier one ("nested paths precede enclosing
ones") -/
def NestedFirst : List (List String × String) → Prop
  | [] => True
  | a :: r => (∀ b ∈ r, ¬ (a.1 ++ [a.2]) <+: (b.1 ++ [b.2])) ∧ NestedFirst r

/-- **Valid markings are defined.**  If every address reaches an existing, not yet hidden member or
element of `T` (index tokens in canonical form), later addresses are neither equal to nor inside
earlier ones, and the digests drawn from counter `i` on are new to `T` and differ from draw to
draw, then marking the whole list is defined. -/
theorem markAll_defined (mk : Nat → Option String → J → String)
    (hmk : ∀ i j k v k' v', mk i k v = mk j k' v' → i = j) :
    (addr : List (List String × String)) → (i : Nat) → (T : MJ) →
    (∀ a ∈ addr, Addressable T a) → NestedFirst addr →
    (∀ g ∈ T.digests, ∀ j k v, i ≤ j → g ≠ mk j k v) →
    ∃ Tn ds, markAll mk i addr T = some (Tn, ds)
  | [], i, T, _, _, _ => ⟨T, [], rfl⟩
  | a :: r, i, T, haddr, hnf, hfresh => by
    obtain ⟨toks, last⟩ := a
    have ha : reaches toks last T = true := haddr (toks, last) (by simp)
    obtain ⟨⟨T1, d⟩, hm⟩ := markIn_of_reaches (mk i) last toks T ha
    obtain ⟨k, v, hd⟩ := markIn_digest_form (mk i) last toks T T1 d hm
    have hnew : d.digest ∉ T.digests := fun hin => hfresh _ hin i k v (Nat.le_refl _) hd
    obtain ⟨hhead, htail⟩ := hnf
    have haddr1 : ∀ b ∈ r, Addressable T1 b := by
      intro b hb
      have h0 := haddr b (by simp [hb])
      unfold Addressable at h0 ⊢
      exact reaches_keeps (mk i) last b.2 toks b.1 T T1 d ha hm h0 (hhead b hb)
    have hfresh1 : ∀ g ∈ T1.digests, ∀ j k v, i + 1 ≤ j → g ≠ mk j k v := by
      intro g hg j k' v' hj
      have := (markIn_digests (mk i) last toks T T1 d hm).subset hg
      simp only [List.mem_cons] at this
      rcases this with rfl | hin
      · intro e
        have := hmk i j k v k' v' (hd.symm.trans e)
        omega
      · exact hfresh g hin j k' v' (by omega)
    obtain ⟨Tn, ds, hrest⟩ := markAll_defined mk hmk r (i+1) T1 haddr1 htail hfresh1
    exact ⟨Tn, d :: ds, by simp [markAll, hm, hnew, hrest]⟩

/-! ### the pointers of the issued tree, without restricting member names

`markIn_paths` / `markAll_paths` ask for `CanonToks` of every token, which also excludes member
names such as `"01"`.  What they need is only that tokens used at *array* nodes are canonical —
which `reaches` says. -/

theorem markIn_paths_r (mk : Option String → J → String) (last : String) :
    (toks : List String) → (T T' : MJ) → (d : SDisc) → (p : String) → reaches toks last T = true →
    MJ.markIn pI pU mk toks last T = some (T', d) →
    (T'.paths p).Perm (((toks ++ [last]).foldl fmtPath p, d.digest) :: T.paths p)
  | [], T, T', d, p, hr, h => by
    simp only [MJ.markIn] at h
    simp only [reaches] at hr
    cases T with
    | leaf j => simp [MJ.markChild] at h
    | arr xs =>
      simp only [MJ.markChild] at h
      cases hp : pU last with
      | none => simp [hp] at h
      | some j =>
        simp only [hp] at h
        cases hg : xs.getClearAt j with
        | none => simp [hg] at h
        | some x =>
          simp only [hg, Option.some.injEq, Prod.mk.injEq] at h
          obtain ⟨rfl, rfl⟩ := h
          simp only [canMarkChild, hp, Bool.and_eq_true, decide_eq_true_eq] at hr
          have hl : last = toString j := hr.1
          have := paths_toMarkedAt (mk none x.payload) p j 0 xs x hg
          simpa [MJ.paths, hl] using this
    | obj ms sd =>
      simp only [MJ.markChild] at h
      by_cases hres : last = "_sd" ∨ last = "..."
      · simp [hres] at h
      · simp only [hres, if_false] at h
        cases hg : ms.getClear last with
        | none => simp [hg] at h
        | some x =>
          simp only [hg, Option.some.injEq, Prod.mk.injEq] at h
          obtain ⟨rfl, rfl⟩ := h
          simpa [MJ.paths] using paths_toMarked last (mk (some last) x.payload) p ms x hg
  | t :: r, T, T', d, p, hr, h => by
    simp only [MJ.markIn] at h
    simp only [reaches, Bool.and_eq_true] at hr
    cases hch : T.child pI t with
    | none => simp [hch] at h
    | some x =>
      simp only [hch] at h hr
      cases hm : MJ.markIn pI pU mk r last x with
      | none => simp [hm] at h
      | some res =>
        obtain ⟨x', d'⟩ := res
        simp only [hm, Option.some.injEq, Prod.mk.injEq] at h
        obtain ⟨rfl, rfl⟩ := h
        cases T with
        | leaf j => simp [MJ.child] at hch
        | arr xs =>
          simp only [MJ.child] at hch
          cases hp : pI t with
          | none => simp [hp] at hch
          | some j =>
            simp only [hp, Option.bind_some] at hch
            have ht : t = toString j := canonTok_arr hr.1 hp
            have ih := markIn_paths_r mk last r x x' d' (fmtPath p (toString j)) hr.2 hm
            have := paths_setClearAt p x' _ j j xs 0 x (by omega) hch ih
            have hset : MJ.setChild pI t x' (.arr xs) = .arr (xs.setClearAt x' j) := by
              simp [MJ.setChild, hp]
            have hfold : (t :: r ++ [last]).foldl fmtPath p =
                (r ++ [last]).foldl fmtPath (fmtPath p (toString j)) := by
              rw [List.cons_append, List.foldl_cons, ← ht]
            rw [hset, hfold]
            simpa [MJ.paths] using this
        | obj ms sd =>
          simp only [MJ.child] at hch
          have ih := markIn_paths_r mk last r x x' d' (fmtPath p t) hr.2 hm
          have := paths_setClear t p x' _ ms x hch ih
          simpa [MJ.setChild, MJ.paths] using this

theorem markAll_paths_r (mk : Nat → Option String → J → String) :
    (addr : List (List String × String)) → (i : Nat) → (T Tn : MJ) → (ds : List SDisc) →
    (∀ a ∈ addr, Addressable T a) → NestedFirst addr → markAll mk i addr T = some (Tn, ds) →
    (Tn.paths "").Perm ((addr.map (fun a => renderPath a.1 a.2)).zip (ds.map (·.digest)) ++ T.paths "")
  | [], i, T, Tn, ds, _, _, h => by
    simp only [markAll, Option.some.injEq, Prod.mk.injEq] at h
    obtain ⟨rfl, rfl⟩ := h
    simp
  | (toks, last) :: r, i, T, Tn, ds, haddr, hnf, h => by
    simp only [markAll] at h
    have ha : reaches toks last T = true := haddr (toks, last) (by simp)
    cases hm : MJ.markIn pI pU (mk i) toks last T with
    | none => simp [hm] at h
    | some res =>
      obtain ⟨T1, d⟩ := res
      simp only [hm] at h
      split at h
      · cases h
      · cases hall : markAll mk (i+1) r T1 with
        | none => simp [hall] at h
        | some res2 =>
          obtain ⟨T2, ds2⟩ := res2
          simp only [hall, Option.some.injEq, Prod.mk.injEq] at h
          obtain ⟨rfl, rfl⟩ := h
          have h1 := markIn_paths_r (mk i) last toks T T1 d "" ha hm
          have haddr1 : ∀ b ∈ r, Addressable T1 b := fun b hb =>
            reaches_keeps (mk i) last b.2 toks b.1 T T1 d ha hm (haddr b (by simp [hb])) (hnf.1 b hb)
          have h2 := markAll_paths_r mk r (i+1) T1 T2 ds2 haddr1 hnf.2 hall
          have hq : (toks ++ [last]).foldl fmtPath "" = renderPath toks last := by
            have := foldl_fmtPath [] (toks ++ [last])
            simp only [joinPath, List.foldl_nil, List.nil_append] at this
            rw [this]
            exact joinPath_eq_renderPath toks last
          rw [hq] at h1
          refine h2.trans ?_
          simp only [List.map_cons, List.zip_cons_cons, List.cons_append]
          exact ((h1.append_left _).trans List.perm_middle)

/-- the pointers of the issued tree, as strings, are the rendered addresses given (member names
unrestricted) -/
theorem issued_pointers_r (mk : Nat → Option String → J → String) (addr : List (List String × String))
    (T Tn : MJ) (ds : List SDisc) (hclear : T.allMarks = [])
    (haddr : ∀ a ∈ addr, Addressable T a) (hnf : NestedFirst addr)
    (h : markAll mk 0 addr T = some (Tn, ds)) :
    ((Tn.paths "").map (·.1)).Perm (addr.map (fun a => renderPath a.1 a.2)) := by
  have h1 := markAll_paths_r mk addr 0 T Tn ds haddr hnf h
  have hT : T.paths "" = [] := by
    have := MJ.paths_snd T ""
    rw [hclear] at this
    simpa using this
  rw [hT, List.append_nil] at h1
  have hlen := markAll_length mk addr 0 T Tn ds h
  refine (h1.map (·.1)).trans ?_
  rw [List.map_fst_zip (by simp [hlen])]

/-! ### on claims without hidden nodes, "addressable" is "exists" -/

theorem getClear_isSome_of_no_marks (k : String) : (ms : MMems) → ms.marks = [] →
    (ms.getClear k).isSome = decide (k ∈ ms.keys)
  | .nil, _ => by simp [MMems.getClear, MMems.keys]
  | .clear k' x r, h => by
    have ih := getClear_isSome_of_no_marks k r (by simpa [MMems.marks] using h)
    by_cases e : k' = k
    · subst e; simp [MMems.getClear, MMems.keys]
    · have e' : ¬ k = k' := fun q => e q.symm
      simp [MMems.getClear, MMems.keys, e, e', ih]
  | .marked k' dg x r, h => by simp [MMems.marks] at h

/-- no element of the array is hidden or a decoy -/
def allClear : MElems → Prop
  | .nil => True
  | .clear _ r => allClear r
  | .marked _ _ _ => False
  | .decoy _ _ => False

def elemCount : MElems → Nat
  | .nil => 0
  | .clear _ r => elemCount r + 1
  | .marked _ _ r => elemCount r + 1
  | .decoy _ r => elemCount r + 1

theorem getClearAt_isSome_of_allClear : (i : Nat) → (xs : MElems) → allClear xs →
    (xs.getClearAt i).isSome = decide (i < elemCount xs)
  | _, .nil, _ => by simp [MElems.getClearAt, elemCount]
  | 0, .clear x r, _ => by simp [MElems.getClearAt, elemCount]
  | i+1, .clear x r, h => by
    simpa [MElems.getClearAt, elemCount] using getClearAt_isSome_of_allClear i r h
  | _, .marked _ _ _, h => by simp [allClear] at h
  | _, .decoy _ _, h => by simp [allClear] at h

/-- in an object none of whose members is hidden, a member can be hidden iff it exists and its
name is not reserved -/
theorem canMarkChild_obj (last : String) (ms : MMems) (sd : Option (List String)) (h : ms.marks = []) :
    canMarkChild last (.obj ms sd) = true ↔ last ∈ ms.keys ∧ last ≠ "_sd" ∧ last ≠ "..." := by
  simp only [canMarkChild]
  by_cases hr : last = "_sd" ∨ last = "..."
  · simp only [hr, if_true]
    constructor
    · intro h; cases h
    · rintro ⟨_, h1, h2⟩; rcases hr with e | e
      · exact absurd e h1
      · exact absurd e h2
  · simp only [hr, if_false, getClear_isSome_of_no_marks last ms h, decide_eq_true_eq]
    constructor
    · intro hk; exact ⟨hk, fun e => hr (.inl e), fun e => hr (.inr e)⟩
    · intro hk; exact hk.1

/-- in an array none of whose elements is hidden, an element can be hidden iff the token is the
canonical decimal of an index below the length (and below 2^64, as `usize::from_str` demands) -/
theorem canMarkChild_arr (last : String) (xs : MElems) (h : allClear xs) :
    canMarkChild last (.arr xs) = true ↔ ∃ i, pU last = some i ∧ last = toString i ∧ i < elemCount xs := by
  simp only [canMarkChild]
  cases hp : pU last with
  | none => simp
  | some i => simp [getClearAt_isSome_of_allClear i xs h]

end Impl
