import SdJwt.Impl.Restore
import SdJwt.Lemmas.Total
/-!
What the validating pre-pass `check_digests` guarantees, for ARBITRARY JSON values (C12):
it succeeds only if no `_sd` is a non-array, no placeholder has extra members, and no digest is
embedded twice; and then it returns exactly the digests it met, appended to those seen before.
-/
open Assoc
namespace Impl

/-- some object, at any depth, has an `_sd` member that is not an array -/
def hasBadSd : J → Bool
  | .obj ms =>
    (match aget "_sd" ms with
     | some (.arr _) => false
     | some _ => true
     | none => false) || badM ms
  | .arr xs => badL xs
  | _ => false
where
  badM : List (String × J) → Bool
    | [] => false
    | (_, v) :: r => hasBadSd v || badM r
  badL : List J → Bool
    | [] => false
    | x :: r => hasBadSd x || badL r

/-- an array item with a `...` member and any other member -/
def isBadPlaceholder : J → Bool
  | .obj ms => (aget "..." ms).isSome && ms.length != 1
  | _ => false

/-- some array, at any depth, has such an item -/
def hasBadPlaceholder : J → Bool
  | .obj ms => bpM ms
  | .arr xs => bpL xs
  | _ => false
where
  bpM : List (String × J) → Bool
    | [] => false
    | (_, v) :: r => hasBadPlaceholder v || bpM r
  bpL : List J → Bool
    | [] => false
    | x :: r => isBadPlaceholder x || hasBadPlaceholder x || bpL r

/-- the digest a well-formed placeholder item carries -/
def phDigest : J → List String
  | .obj ms => match aget "..." ms with
    | some (.str g) => if ms.length = 1 then [g] else []
    | _ => []
  | _ => []

/-- every embedded digest, in the order the pre-pass meets them: the strings of each `_sd`
array, then the members; for arrays, each item's placeholder digest, then the item -/
def embedded : J → List String
  | .obj ms =>
    (match aget "_sd" ms with
     | some (.arr xs) => strsOf xs
     | _ => []) ++ embM ms
  | .arr xs => embL xs
  | _ => []
where
  embM : List (String × J) → List String
    | [] => []
    | (_, v) :: r => embedded v ++ embM r
  embL : List J → List String
    | [] => []
    | x :: r => phDigest x ++ embedded x ++ embL r

theorem noteAll_ok : (gs seen s : List String) → noteAll gs seen = .ok s →
    s = seen ++ gs ∧ (∀ g ∈ gs, g ∉ seen) ∧ gs.Nodup
  | [], seen, s, h => by simp [noteAll] at h; simp [h]
  | g :: r, seen, s, h => by
    unfold noteAll note at h
    by_cases hm : g ∈ seen
    · simp [hm] at h
    · simp only [hm, if_false] at h
      obtain ⟨e1, e2, e3⟩ := noteAll_ok r (seen ++ [g]) s h
      refine ⟨by simp [e1], ?_, ?_⟩
      · intro x hx
        simp at hx
        rcases hx with rfl | hx
        · exact hm
        · intro hxs; exact e2 x hx (by simp [hxs])
      · simp only [List.nodup_cons]
        exact ⟨fun hg => e2 g hg (by simp), e3⟩

theorem phNote_ok (x : J) (seen s : List String) (h : phNote x seen = .ok s) :
    s = seen ++ phDigest x ∧ (∀ g ∈ phDigest x, g ∉ seen) ∧ isBadPlaceholder x = false := by
  unfold phNote at h
  cases x with
  | obj ms =>
    simp only at h
    cases hd : aget "..." ms with
    | none => simp [hd] at h; simp [phDigest, isBadPlaceholder, hd, h]
    | some ph =>
      simp only [hd] at h
      by_cases hl : ms.length = 1
      · simp only [hl, ne_eq, not_true_eq_false, if_false] at h
        cases ph with
        | str g =>
          simp only [note] at h
          by_cases hm : g ∈ seen
          · simp [hm] at h
          · simp [hm] at h
            simp [phDigest, isBadPlaceholder, hd, hl, h, hm]
        | null => simp at h; simp [phDigest, isBadPlaceholder, hd, hl, h]
        | bool b => simp at h; simp [phDigest, isBadPlaceholder, hd, hl, h]
        | num m e => simp at h; simp [phDigest, isBadPlaceholder, hd, hl, h]
        | arr xs => simp at h; simp [phDigest, isBadPlaceholder, hd, hl, h]
        | obj ms' => simp at h; simp [phDigest, isBadPlaceholder, hd, hl, h]
      · simp [hl] at h
  | null => simp at h; simp [phDigest, isBadPlaceholder, h]
  | bool b => simp at h; simp [phDigest, isBadPlaceholder, h]
  | num m e => simp at h; simp [phDigest, isBadPlaceholder, h]
  | str s' => simp at h; simp [phDigest, isBadPlaceholder, h]
  | arr xs => simp at h; simp [phDigest, isBadPlaceholder, h]

theorem compose_seen {seen A B s1 s2 : List String}
    (h1 : s1 = seen ++ A) (d1 : ∀ g ∈ A, g ∉ seen) (n1 : A.Nodup)
    (h2 : s2 = s1 ++ B) (d2 : ∀ g ∈ B, g ∉ s1) (n2 : B.Nodup) :
    s2 = seen ++ (A ++ B) ∧ (∀ g ∈ A ++ B, g ∉ seen) ∧ (A ++ B).Nodup := by
  subst h1 h2
  refine ⟨by simp, ?_, ?_⟩
  · intro g hg
    simp at hg
    rcases hg with hg | hg
    · exact d1 g hg
    · intro hs; exact d2 g hg (by simp [hs])
  · rw [List.nodup_append]
    refine ⟨n1, n2, ?_⟩
    intro a ha b hb hab
    subst hab
    exact d2 a hb (by simp [ha])

/-- the statement carried through the walk -/
def CheckSpec (j : J) (seen s : List String) : Prop :=
  s = seen ++ embedded j ∧ (∀ g ∈ embedded j, g ∉ seen) ∧ (embedded j).Nodup ∧
  hasBadSd j = false ∧ hasBadPlaceholder j = false

theorem checkDigests_ok (j : J) (seen : List String) :
    ∀ s, checkDigests j seen = .ok s → CheckSpec j seen s := by
  apply checkDigests.induct
    (motive_1 := fun ms seen => ∀ s, checkDigests.checkM ms seen = .ok s →
      s = seen ++ embedded.embM ms ∧ (∀ g ∈ embedded.embM ms, g ∉ seen) ∧ (embedded.embM ms).Nodup ∧
      hasBadSd.badM ms = false ∧ hasBadPlaceholder.bpM ms = false)
    (motive_2 := fun j seen => ∀ s, checkDigests j seen = .ok s → CheckSpec j seen s)
    (motive_3 := fun xs seen => ∀ s, checkDigests.checkL xs seen = .ok s →
      s = seen ++ embedded.embL xs ∧ (∀ g ∈ embedded.embL xs, g ∉ seen) ∧ (embedded.embL xs).Nodup ∧
      hasBadSd.badL xs = false ∧ hasBadPlaceholder.bpL xs = false)
  -- 1: object with an `_sd` array
  · intro ms seen xs hsd seen' hn ih s h
    simp only [checkDigests, hsd, hn] at h
    obtain ⟨e1, e2, e3, e4, e5⟩ := ih s h
    obtain ⟨f1, f2, f3⟩ := noteAll_ok _ _ _ hn
    obtain ⟨g1, g2, g3⟩ := compose_seen f1 f2 f3 e1 e2 e3
    exact ⟨by simpa [embedded, hsd] using g1, by simpa [embedded, hsd] using g2,
      by simpa [embedded, hsd] using g3, by simp [hasBadSd, hsd, e4], by simp [hasBadPlaceholder, e5]⟩
  · intro ms seen xs hsd e hn s h; simp [checkDigests, hsd, hn] at h
  · intro ms seen xs hsd hn s h; simp [checkDigests, hsd, hn] at h
  · intro ms seen val hna hsd s h
    cases val <;> simp_all [checkDigests]
  -- 5: object without `_sd`
  · intro ms seen hsd ih s h
    simp only [checkDigests, hsd] at h
    obtain ⟨e1, e2, e3, e4, e5⟩ := ih s h
    exact ⟨by simpa [embedded, hsd] using e1, by simpa [embedded, hsd] using e2,
      by simpa [embedded, hsd] using e3, by simp [hasBadSd, hsd, e4], by simp [hasBadPlaceholder, e5]⟩
  -- 6: array
  · intro xs seen ih s h
    simp only [checkDigests] at h
    obtain ⟨e1, e2, e3, e4, e5⟩ := ih s h
    exact ⟨by simpa [embedded] using e1, by simpa [embedded] using e2, by simpa [embedded] using e3,
      by simp [hasBadSd, e4], by simp [hasBadPlaceholder, e5]⟩
  -- 7: scalar
  · intro t seen h1 h2 s h
    cases t <;> simp_all [checkDigests, CheckSpec, embedded, hasBadSd, hasBadPlaceholder]
  -- 8: empty array
  · intro seen s h
    simp [checkDigests.checkL] at h
    simp [embedded.embL, hasBadSd.badL, hasBadPlaceholder.bpL, h]
  -- 9: array item, all fine
  · intro x r seen seen' hp seen'' hx ihx ihr s h
    simp only [checkDigests.checkL, hp, hx] at h
    obtain ⟨p1, p2, p3⟩ := phNote_ok _ _ _ hp
    obtain ⟨e1, e2, e3, e4, e5⟩ := ihx seen'' hx
    obtain ⟨r1, r2, r3, r4, r5⟩ := ihr s h
    have nd : (phDigest x).Nodup := by
      unfold phDigest; split <;> try simp
      split <;> try simp
      split <;> simp
    obtain ⟨g1, g2, g3⟩ := compose_seen p1 p2 nd e1 e2 e3
    obtain ⟨k1, k2, k3⟩ := compose_seen g1 g2 g3 r1 r2 r3
    exact ⟨by simpa [embedded.embL, List.append_assoc] using k1,
      by simpa [embedded.embL, List.append_assoc] using k2,
      by simpa [embedded.embL, List.append_assoc] using k3,
      by simp [hasBadSd.badL, e4, r4], by simp [hasBadPlaceholder.bpL, p3, e5, r5]⟩
  · intro x r seen seen' hp e hx _ s h; simp [checkDigests.checkL, hp, hx] at h
  · intro x r seen seen' hp hx _ s h; simp [checkDigests.checkL, hp, hx] at h
  · intro x r seen e hp s h; simp [checkDigests.checkL, hp] at h
  · intro x r seen hp s h; simp [checkDigests.checkL, hp] at h
  -- 14: no members
  · intro seen s h
    simp [checkDigests.checkM] at h
    simp [embedded.embM, hasBadSd.badM, hasBadPlaceholder.bpM, h]
  -- 15: member, all fine
  · intro k v r seen seen' hv ihv ihr s h
    simp only [checkDigests.checkM, hv] at h
    obtain ⟨e1, e2, e3, e4, e5⟩ := ihv seen' hv
    obtain ⟨r1, r2, r3, r4, r5⟩ := ihr s h
    obtain ⟨g1, g2, g3⟩ := compose_seen e1 e2 e3 r1 r2 r3
    exact ⟨by simpa [embedded.embM] using g1, by simpa [embedded.embM] using g2,
      by simpa [embedded.embM] using g3, by simp [hasBadSd.badM, e4, r4], by simp [hasBadPlaceholder.bpM, e5, r5]⟩
  · intro k v r seen e hv _ s h; simp [checkDigests.checkM, hv] at h
  · intro k v r seen hv _ s h; simp [checkDigests.checkM, hv] at h

end Impl
