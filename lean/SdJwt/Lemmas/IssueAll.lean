import SdJwt.Lemmas.Issue
import SdJwt.Lemmas.Strings
/-! T-issue for a list of paths, and JSON-pointer parsing of rendered paths. -/
open Assoc Spec
namespace Impl

/-- the path string `path` addresses the child `last` of the node reached by `toks` -/
def Parsed (path : String) (toks : List String) (last : String) : Prop :=
  ∃ pp el, parentElem path.toList = .ok (pp, el) ∧ pointerToks pp = some toks ∧
    String.ofList (unescapeTok el) = last

def ParsedAll : List String → List (List String × String) → Prop
  | [], [] => True
  | p :: ps, (toks, last) :: r => Parsed p toks last ∧ ParsedAll ps r
  | _, _ => False

/-- marking a list of addressed nodes one after another (each digest new to the tree) -/
def markAll (mk : Nat → Option String → J → String) : Nat → List (List String × String) → MJ →
    Option (MJ × List SDisc)
  | _, [], T => some (T, [])
  | i, (toks, last) :: r, T =>
    match MJ.markIn pI pU (mk i) toks last T with
    | none => none
    | some (T1, d) =>
      if d.digest ∈ T.digests then none
      else match markAll mk (i+1) r T1 with
        | none => none
        | some (T2, ds) => some (T2, d :: ds)

def toSrc (d : SDisc) : DiscSrc := ⟨d.key, d.value, d.digest⟩

/-- **T-issue.** If marking the addressed nodes in the given order is defined on `T` (each path
reaches, through nodes not hidden so far, a node not hidden so far: nested paths before enclosing
ones, no repeats; each digest new), then the issuer model's working copy after all paths is the
payload of the marked tree, the recorded disclosures are the marked nodes' disclosures in path
order, the marked tree is conformant, and it stands for the same claims. -/
theorem applyPaths_markAll (mk : Nat → Option String → J → String) :
    (paths : List String) → (addr : List (List String × String)) → (i : Nat) → (T Tn : MJ) →
    (ds : List SDisc) → T.WF → ParsedAll paths addr → markAll mk i addr T = some (Tn, ds) →
    applyPaths mk i T.payload paths = .ok (Tn.payload, ds.map toSrc) ∧ Tn.WF ∧ Tn.plain = T.plain
  | [], [], i, T, Tn, ds, wf, _, h => by
    simp only [markAll, Option.some.injEq, Prod.mk.injEq] at h
    obtain ⟨rfl, rfl⟩ := h
    exact ⟨by simp [applyPaths], wf, rfl⟩
  | [], _ :: _, _, _, _, _, _, hp, _ => by simp [ParsedAll] at hp
  | _ :: _, [], _, _, _, _, _, hp, _ => by simp [ParsedAll] at hp
  | p :: ps, (toks, last) :: r, i, T, Tn, ds, wf, hp, h => by
    simp only [ParsedAll] at hp
    obtain ⟨⟨pp, el, h1, h2, h3⟩, hrest⟩ := hp
    simp only [markAll] at h
    cases hm : MJ.markIn pI pU (mk i) toks last T with
    | none => simp [hm] at h
    | some res =>
      obtain ⟨T1, d⟩ := res
      simp only [hm] at h
      by_cases hf : d.digest ∈ T.digests
      · simp [hf] at h
      · simp only [hf, if_false] at h
        cases ha : markAll mk (i+1) r T1 with
        | none => simp [ha] at h
        | some res2 =>
          obtain ⟨T2, ds2⟩ := res2
          simp only [ha, Option.some.injEq, Prod.mk.injEq] at h
          obtain ⟨rfl, rfl⟩ := h
          have hstep := updateAt_markIn (mk i) last toks T T1 d wf hm
          have wf1 := markIn_wf (mk i) last toks T T1 d wf hm (fun g hg => hg ▸ hf)
          have hpl := markIn_plain (mk i) last toks T T1 d hm
          obtain ⟨ih1, ih2, ih3⟩ := applyPaths_markAll mk ps r (i+1) T1 T2 ds2 wf1 hrest ha
          refine ⟨?_, ih2, ih3.trans hpl⟩
          simp [applyPaths, buildDisclosure, h1, h2, h3, hstep, ih1, toSrc]

/-! ### rendered JSON pointers parse back -/

def escape0 : List Char → List Char
  | [] => []
  | c :: r => if c = '~' then '~' :: '0' :: escape0 r else c :: escape0 r

theorem replacePair_cons_ne (a b r x : Char) (hx : x ≠ a) : (l : List Char) →
    replacePair a b r (x :: l) = x :: replacePair a b r l
  | [] => by simp [replacePair]
  | y :: t => by simp [replacePair, hx]

theorem pass1 : (cs : List Char) → replacePair '~' '1' '/' (Path.escapeL cs) = escape0 cs
  | [] => by simp [Path.escapeL, escape0, replacePair]
  | c :: r => by
    by_cases h1 : c = '~'
    · subst h1
      have : replacePair '~' '1' '/' ('~' :: '0' :: Path.escapeL r) =
          '~' :: replacePair '~' '1' '/' ('0' :: Path.escapeL r) := by
        simp [replacePair]
      simp [Path.escapeL, escape0, this, replacePair_cons_ne '~' '1' '/' '0' (by decide), pass1 r]
    · by_cases h2 : c = '/'
      · subst h2
        simp [Path.escapeL, escape0, replacePair, pass1 r]
      · simp [Path.escapeL, escape0, h1, h2, replacePair_cons_ne _ _ _ c h1, pass1 r]

theorem pass2 : (cs : List Char) → replacePair '~' '0' '~' (escape0 cs) = cs
  | [] => by simp [escape0, replacePair]
  | c :: r => by
    by_cases h1 : c = '~'
    · subst h1; simp [escape0, replacePair, pass2 r]
    · simp [escape0, h1, replacePair_cons_ne _ _ _ c h1, pass2 r]

/-- `unescape (escape k) = k` for every claim name, also names containing `/` and `~` (D20) -/
theorem unescape_escape (cs : List Char) : unescapeTok (Path.escapeL cs) = cs := by
  simp [unescapeTok, pass1, pass2]

theorem escapeL_no_slash : (cs : List Char) → '/' ∉ Path.escapeL cs
  | [] => by simp [Path.escapeL]
  | c :: r => by
    have ih := escapeL_no_slash r
    by_cases h1 : c = '~'
    · simp [Path.escapeL, h1, ih]
    · by_cases h2 : c = '/'
      · simp [Path.escapeL, h2, ih]
      · simp only [Path.escapeL, h1, h2, if_false, List.mem_cons, not_or]
        exact ⟨fun e => h2 e.symm, ih⟩

/-- render reference tokens (already escaped) as a JSON pointer -/
def renderL : List (List Char) → List Char
  | [] => []
  | e :: r => '/' :: e ++ renderL r

theorem splitOn_cons_sep (c : Char) (t : List Char) : splitOn c (c :: t) = [] :: splitOn c t := by
  simp [splitOn]

theorem splitOn_prefix (c : Char) : (e t : List Char) → c ∉ e → splitOn c (e ++ c :: t) = e :: splitOn c t
  | [], t, _ => by simp [splitOn]
  | x :: e, t, h => by
    have hx : x ≠ c := fun eq => h (by simp [eq])
    have he : c ∉ e := fun m => h (by simp [m])
    simp [splitOn, hx, splitOn_prefix c e t he]

theorem splitOn_renderL : (es : List (List Char)) → (∀ e ∈ es, '/' ∉ e) → es ≠ [] →
    splitOn '/' (renderL es) = [] :: es
  | [], _, h => absurd rfl h
  | [e], hno, _ => by
    simp [renderL, splitOn_cons_sep, splitOn_of_not_mem '/' e (hno e (by simp))]
  | e :: e2 :: r, hno, _ => by
    have ih := splitOn_renderL (e2 :: r) (fun x hx => hno x (by simp [hx])) (by simp)
    simp only [renderL, List.cons_append] at ih ⊢
    rw [splitOn_cons_sep, splitOn_prefix '/' e _ (hno e (by simp))]
    rw [splitOn_cons_sep] at ih
    simp only [List.cons.injEq, true_and] at ih
    rw [ih]

theorem joinWith_flatten (c : Char) : (es : List (List Char)) → (a : List Char) →
    joinWith c (a :: es) = a ++ (es.map (c :: ·)).flatten
  | [], a => by simp [joinWith]
  | b :: r, a => by simp [joinWith, joinWith_flatten c r b]

theorem renderL_flatten : (es : List (List Char)) → renderL es = (es.map ('/' :: ·)).flatten
  | [] => rfl
  | e :: r => by simp [renderL, renderL_flatten r]

theorem joinWith_nil_cons (es : List (List Char)) : joinWith '/' ([] :: es) = renderL es := by
  rw [joinWith_flatten, renderL_flatten]; rfl

/-- the JSON pointer of the node named `last` below the nodes named `toks` -/
def renderPath (toks : List String) (last : String) : String :=
  String.ofList (renderL ((toks ++ [last]).map (fun k => Path.escapeL k.toList)))

/-- **Rendered pointers parse back**: for ALL names — empty, numeric-looking, containing `/` or
`~` — the issuer's parsing of the rendered pointer yields the parent's reference tokens and the
last name (D20). -/
theorem parsed_renderPath (toks : List String) (last : String) : Parsed (renderPath toks last) toks last := by
  unfold Parsed renderPath
  have hno : ∀ e ∈ (toks ++ [last]).map (fun k => Path.escapeL k.toList), '/' ∉ e := by
    intro e he
    simp only [List.mem_map] at he
    obtain ⟨k, _, rfl⟩ := he
    exact escapeL_no_slash _
  have hne : (toks ++ [last]).map (fun k => Path.escapeL k.toList) ≠ [] := by simp
  have hsplit := splitOn_renderL _ hno hne
  refine ⟨renderL (toks.map (fun k => Path.escapeL k.toList)), Path.escapeL last.toList, ?_, ?_, ?_⟩
  · simp only [parentElem, String.toList_ofList, hsplit]
    simp only [List.map_append, List.map_cons, List.map_nil, List.reverse_cons, List.reverse_append,
      List.reverse_nil, List.nil_append, List.singleton_append, List.cons_append]
    cases hr : (toks.map (fun k => Path.escapeL k.toList)).reverse with
    | nil =>
      have : toks.map (fun k => Path.escapeL k.toList) = [] := by simpa using hr
      simp [this, renderL, joinWith]
    | cons a t =>
      have hj := joinWith_nil_cons (toks.map (fun k => Path.escapeL k.toList))
      have hrev : (a :: t).reverse = toks.map (fun k => Path.escapeL k.toList) := by
        rw [← hr]; simp
      simp only [List.reverse_cons] at hrev
      simp [hrev, hj]
  · cases toks with
    | nil => simp [renderL, pointerToks]
    | cons t r =>
      have hno' : ∀ e ∈ (t :: r).map (fun k => Path.escapeL k.toList), '/' ∉ e := by
        intro e he
        simp only [List.mem_map] at he
        obtain ⟨k, _, rfl⟩ := he
        exact escapeL_no_slash _
      have hs := splitOn_renderL ((t :: r).map (fun k => Path.escapeL k.toList)) hno' (by simp)
      simp only [List.map_cons, renderL, List.cons_append] at hs ⊢
      rw [splitOn_cons_sep] at hs
      simp only [List.cons.injEq, true_and] at hs
      simp only [pointerToks, hs, List.map_cons, List.map_map, Option.some.injEq, List.cons.injEq]
      refine ⟨by simp [unescape_escape, String.ofList_toList], ?_⟩
      apply List.ext_getElem
      · simp
      · intro i h1 h2
        simp [unescape_escape, String.ofList_toList]
  · simp [unescape_escape, String.ofList_toList]

end Impl
