import SdJwt.Impl.Header
import SdJwt.Lemmas.Assoc
/-! Member lookup in the serialised header. -/
open Assoc
namespace Impl

theorem aget_optStr_self (k : String) (v : Option String) (l : List (String × J))
    (hl : aget k l = none) : aget k (optStr k v l) = v.map J.str := by
  cases v with
  | none => simpa [optStr] using hl
  | some s => simp [optStr, aget_ains_self]

theorem aget_optStr_ne (k0 k : String) (v : Option String) (l : List (String × J)) (h : k0 ≠ k) :
    aget k0 (optStr k v l) = aget k0 l := by
  cases v with
  | none => rfl
  | some s => simp [optStr, aget_ains_ne _ h]

theorem aget_optList_self (k : String) (v : Option (List String)) (l : List (String × J))
    (hl : aget k l = none) : aget k (optList k v l) = v.map (fun xs => J.arr (xs.map J.str)) := by
  cases v with
  | none => simpa [optList] using hl
  | some s => simp [optList, aget_ains_self]

theorem aget_optList_ne (k0 k : String) (v : Option (List String)) (l : List (String × J)) (h : k0 ≠ k) :
    aget k0 (optList k v l) = aget k0 l := by
  cases v with
  | none => rfl
  | some s => simp [optList, aget_ains_ne _ h]

end Impl
