import SdJwt.Impl.Flows
/-! The holder's filter (`Holder::build`, D6): which disclosures a redaction list keeps. -/
namespace Impl

/-- the entries `Holder::build` keeps (before mapping to disclosure strings) -/
def keptEntries (paths : List PathEntry) (redacted : List String) : List PathEntry :=
  let prefixes := (paths.filter (fun pe => redacted.contains pe.1)).map (fun pe => pe.1 ++ "/")
  (paths.filter (fun pe => !redacted.contains pe.1)).filter
      (fun pe => !prefixes.any (fun pre => pre.toList.isPrefixOf pe.1.toList))

theorem keptDisclosures_eq (paths : List PathEntry) (redacted : List String) :
    keptDisclosures paths redacted = (keptEntries paths redacted).map (fun pe => pe.2.str) := rfl

theorem mem_keptEntries (paths : List PathEntry) (redacted : List String) (pe : PathEntry) :
    pe ∈ keptEntries paths redacted ↔
      pe ∈ paths ∧ pe.1 ∉ redacted ∧
      ∀ q ∈ paths, q.1 ∈ redacted → ¬ ((q.1 ++ "/").toList.isPrefixOf pe.1.toList = true) := by
  unfold keptEntries
  simp only [List.mem_filter, List.any_eq_true, List.mem_map, Bool.not_eq_true', Bool.not_eq_eq_eq_not,
    Bool.not_true, List.contains_eq_mem, decide_eq_false_iff_not, decide_eq_true_eq]
  constructor
  · rintro ⟨⟨h1, h2⟩, h3⟩
    refine ⟨h1, h2, ?_⟩
    intro q hq hr hp
    have : (List.map (fun pe => pe.1 ++ "/") (List.filter (fun pe => decide (pe.1 ∈ redacted)) paths)).any
        (fun pre => pre.toList.isPrefixOf pe.1.toList) = true := by
      simp only [List.any_eq_true, List.mem_map, List.mem_filter, decide_eq_true_eq]
      exact ⟨q.1 ++ "/", ⟨q, ⟨hq, hr⟩, rfl⟩, hp⟩
    simp [this] at h3
  · rintro ⟨h1, h2, h3⟩
    refine ⟨⟨h1, h2⟩, ?_⟩
    cases hany : (List.map (fun pe => pe.1 ++ "/") (List.filter (fun pe => decide (pe.1 ∈ redacted)) paths)).any
        (fun pre => pre.toList.isPrefixOf pe.1.toList) with
    | false => rfl
    | true =>
      exfalso
      simp only [List.any_eq_true, List.mem_map, List.mem_filter, decide_eq_true_eq] at hany
      obtain ⟨pre, ⟨q, ⟨hq, hr⟩, rfl⟩, hp⟩ := hany
      exact h3 q hq hr hp

/-- redacting only strings that are not the path of a disclosure keeps everything -/
theorem keptEntries_noop (paths : List PathEntry) (redacted : List String)
    (h : ∀ pe ∈ paths, pe.1 ∉ redacted) : keptEntries paths redacted = paths := by
  unfold keptEntries
  have h1 : paths.filter (fun pe => redacted.contains pe.1) = [] := by
    simp only [List.filter_eq_nil_iff, List.contains_eq_mem, decide_eq_true_eq]
    exact h
  have h2 : paths.filter (fun pe => !redacted.contains pe.1) = paths := by
    simp only [List.filter_eq_self, Bool.not_eq_true', List.contains_eq_mem, decide_eq_false_iff_not]
    exact h
  simp only [h1, h2, List.map_nil, List.any_nil, Bool.not_false]
  simp

end Impl
