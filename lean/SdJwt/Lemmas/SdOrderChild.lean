import SdJwt.Lemmas.SdOrder
import SdJwt.Spec.Marking
/-!
Shuffling the digest lists of a value that is still in the clear — which is what the issuer does to a value
right before it hides it — is a permutation of visible digest lists of the whole working tree.
-/
open Spec

theorem MMems.sdPermVis_setClear (k : String) (x x' : MJ) (hx : x.sdPermVis x') :
    (M : MMems) → M.getClear k = some x → M.sdPermVis (M.setClear k x')
  | .nil, h => by simp [MMems.getClear] at h
  | .clear k' y r, h => by
    simp only [MMems.getClear] at h
    by_cases hk : k' = k
    · simp only [hk, if_true, Option.some.injEq] at h
      subst h
      simp only [MMems.setClear, hk, if_true]
      exact ⟨x', r, rfl, hx, MMems.sdPermVis_refl r⟩
    · simp only [hk, if_false] at h
      simp only [MMems.setClear, hk, if_false]
      exact ⟨y, _, rfl, MJ.sdPermVis_refl y, MMems.sdPermVis_setClear k x x' hx r h⟩
  | .marked k' g y r, h => by
    simp only [MMems.getClear] at h
    simp only [MMems.setClear]
    exact ⟨_, rfl, MMems.sdPermVis_setClear k x x' hx r h⟩

theorem MElems.sdPermVis_setClearAt (x x' : MJ) (hx : x.sdPermVis x') :
    (i : Nat) → (E : MElems) → E.getClearAt i = some x → E.sdPermVis (E.setClearAt x' i)
  | _, .nil, h => by simp [MElems.getClearAt] at h
  | 0, .clear y r, h => by
    simp only [MElems.getClearAt, Option.some.injEq] at h
    subst h
    exact ⟨x', r, rfl, hx, MElems.sdPermVis_refl r⟩
  | 0, .marked g y r, h => by simp [MElems.getClearAt] at h
  | 0, .decoy g r, h => by simp [MElems.getClearAt] at h
  | i+1, .clear y r, h => by
    simp only [MElems.getClearAt] at h
    exact ⟨y, _, rfl, MJ.sdPermVis_refl y, MElems.sdPermVis_setClearAt x x' hx i r h⟩
  | i+1, .marked g y r, h => by
    simp only [MElems.getClearAt] at h
    exact ⟨_, rfl, MElems.sdPermVis_setClearAt x x' hx i r h⟩
  | i+1, .decoy g r, h => by
    simp only [MElems.getClearAt] at h
    exact ⟨_, rfl, MElems.sdPermVis_setClearAt x x' hx i r h⟩

/-- permuting the visible digest lists of a clear child is permuting visible digest lists of the parent -/
theorem MJ.sdPermVis_setChild (pi : String → Option Nat) (t : String) (x x' : MJ) (hx : x.sdPermVis x') :
    (T : MJ) → T.child pi t = some x → T.sdPermVis (MJ.setChild pi t x' T)
  | .leaf _, h => by simp [MJ.child] at h
  | .obj ms sd, h => by
    simp only [MJ.child] at h
    exact ⟨_, sd, rfl, MMems.sdPermVis_setClear t x x' hx ms h, sdOptPerm_refl sd⟩
  | .arr xs, h => by
    simp only [MJ.child] at h
    cases hp : pi t with
    | none => simp [hp] at h
    | some i =>
      simp only [hp, Option.bind_some] at h
      simp only [MJ.setChild, hp]
      exact ⟨_, rfl, MElems.sdPermVis_setClearAt x x' hx i xs h⟩

/-- the node reached through clear members / elements along `toks` -/
def MJ.getDeep (pi : String → Option Nat) : List String → MJ → Option MJ
  | [], T => some T
  | t :: r, T => (T.child pi t).bind (MJ.getDeep pi r)

/-- the tree with that node replaced -/
def MJ.replaceDeep (pi : String → Option Nat) : List String → MJ → MJ → MJ
  | [], _, y => y
  | t :: r, T, y =>
    match T.child pi t with
    | some c => MJ.setChild pi t (MJ.replaceDeep pi r c y) T
    | none => T

/-- **shuffling inside a value that is still in the clear, at any depth, is a permutation of visible digest
lists of the whole tree** — the step `IssueRun` allows before every marking -/
theorem MJ.sdPermVis_replaceDeep (pi : String → Option Nat) (x x' : MJ) (hx : x.sdPermVis x') :
    (toks : List String) → (T : MJ) → MJ.getDeep pi toks T = some x → T.sdPermVis (MJ.replaceDeep pi toks T x')
  | [], T, h => by
    simp only [MJ.getDeep, Option.some.injEq] at h
    subst h
    exact hx
  | t :: r, T, h => by
    simp only [MJ.getDeep] at h
    cases hc : T.child pi t with
    | none => simp [hc] at h
    | some c =>
      simp only [hc, Option.bind_some] at h
      simp only [MJ.replaceDeep, hc]
      exact MJ.sdPermVis_setChild pi t c _ (MJ.sdPermVis_replaceDeep pi x x' hx r c h) T hc
