import SdJwt.Lemmas.View
/-! What `revealTop` preserves: well-formedness, distinctness of digests, the disclosures. -/
open Assoc Spec

theorem keysGt_revealTop (g k0 : String) : (ms : MMems) → ms.keysGt k0 → (ms.revealTop g).keysGt k0
  | .nil, _ => trivial
  | .clear k x r, h => by
    simp only [MMems.keysGt] at h
    exact ⟨h.1, keysGt_revealTop g k0 r h.2⟩
  | .marked k dg x r, h => by
    simp only [MMems.keysGt] at h
    simp only [MMems.revealTop]
    split
    · exact ⟨h.1, keysGt_revealTop g k0 r h.2⟩
    · exact ⟨h.1, keysGt_revealTop g k0 r h.2⟩

theorem marks_revealTop_sublist (g : String) : (ms : MMems) → (ms.revealTop g).marks.Sublist ms.marks
  | .nil => List.Sublist.refl _
  | .clear k x r => by simpa [MMems.revealTop, MMems.marks] using marks_revealTop_sublist g r
  | .marked k dg x r => by
    simp only [MMems.revealTop]
    split
    · simp only [MMems.marks]
      exact (marks_revealTop_sublist g r).trans (List.sublist_cons_self _ _)
    · simp only [MMems.marks]
      exact (marks_revealTop_sublist g r).cons₂ _

mutual
theorem MJ.wf_revealTop (g : String) : (T : MJ) → T.WF → (T.revealTop g).WF
  | .leaf j, wf => by simpa [MJ.revealTop] using wf
  | .arr xs, wf => by
    simp only [MJ.WF] at wf
    simpa [MJ.revealTop, MJ.WF] using MElems.wf_revealTop g xs wf
  | .obj ms sd, wf => by
    simp only [MJ.WF] at wf
    simp only [MJ.revealTop, MJ.WF]
    refine ⟨MMems.wf_revealTop g ms wf.1, ?_, ?_⟩
    · intro h hh; exact wf.2.1 h ((marks_revealTop_sublist g ms).subset hh)
    · exact (marks_revealTop_sublist g ms).nodup wf.2.2
theorem MElems.wf_revealTop (g : String) : (xs : MElems) → xs.WF → (xs.revealTop g).WF
  | .nil, _ => trivial
  | .clear x r, wf => by
    simp only [MElems.WF] at wf
    exact ⟨MJ.wf_revealTop g x wf.1, MElems.wf_revealTop g r wf.2⟩
  | .marked dg x r, wf => by
    simp only [MElems.WF] at wf
    simp only [MElems.revealTop]
    split
    · exact ⟨wf.1, MElems.wf_revealTop g r wf.2⟩
    · exact ⟨wf.1, MElems.wf_revealTop g r wf.2⟩
  | .decoy dg r, wf => by
    simp only [MElems.WF] at wf
    exact MElems.wf_revealTop g r wf
theorem MMems.wf_revealTop (g : String) : (ms : MMems) → ms.WF → (ms.revealTop g).WF
  | .nil, _ => trivial
  | .clear k x r, wf => by
    simp only [MMems.WF] at wf
    exact ⟨wf.1, wf.2.1, MJ.wf_revealTop g x wf.2.2.1, keysGt_revealTop g k r wf.2.2.2.1,
      MMems.wf_revealTop g r wf.2.2.2.2⟩
  | .marked k dg x r, wf => by
    simp only [MMems.WF] at wf
    simp only [MMems.revealTop]
    split
    · exact ⟨wf.1, wf.2.1, wf.2.2.1, keysGt_revealTop g k r wf.2.2.2.1, MMems.wf_revealTop g r wf.2.2.2.2⟩
    · exact ⟨wf.1, wf.2.1, wf.2.2.1, keysGt_revealTop g k r wf.2.2.2.1, MMems.wf_revealTop g r wf.2.2.2.2⟩
end

mutual
theorem MJ.digests_revealTop (g : String) : (T : MJ) → (T.revealTop g).digests.Sublist T.digests
  | .leaf _ => List.Sublist.refl _
  | .arr xs => by simpa [MJ.revealTop, MJ.digests] using MElems.digests_revealTop g xs
  | .obj ms sd => by
    simp only [MJ.revealTop, MJ.digests]
    exact (List.Sublist.refl _).append (MMems.digests_revealTop g ms)
theorem MElems.digests_revealTop (g : String) : (xs : MElems) → (xs.revealTop g).digests.Sublist xs.digests
  | .nil => List.Sublist.refl _
  | .clear x r => by
    simp only [MElems.revealTop, MElems.digests]
    exact (MJ.digests_revealTop g x).append (MElems.digests_revealTop g r)
  | .marked dg x r => by
    simp only [MElems.revealTop]
    split
    · simp only [MElems.digests]
      exact ((List.Sublist.refl _).append (MElems.digests_revealTop g r)).trans (List.sublist_cons_self _ _)
    · simp only [MElems.digests]
      exact ((List.Sublist.refl _).append (MElems.digests_revealTop g r)).cons₂ _
  | .decoy dg r => by
    simp only [MElems.revealTop, MElems.digests]
    exact (MElems.digests_revealTop g r).cons₂ _
theorem MMems.digests_revealTop (g : String) : (ms : MMems) → (ms.revealTop g).digests.Sublist ms.digests
  | .nil => List.Sublist.refl _
  | .clear k x r => by
    simp only [MMems.revealTop, MMems.digests]
    exact (MJ.digests_revealTop g x).append (MMems.digests_revealTop g r)
  | .marked k dg x r => by
    simp only [MMems.revealTop]
    split
    · simp only [MMems.digests]
      exact (List.Sublist.refl _).append (MMems.digests_revealTop g r)
    · simp only [MMems.digests]
      exact (List.Sublist.refl _).append (MMems.digests_revealTop g r)
end

mutual
theorem MJ.vdigests_sublist : (T : MJ) → T.vdigests.Sublist T.digests
  | .leaf _ => List.Sublist.refl _
  | .arr xs => by simpa [MJ.vdigests, MJ.digests] using MElems.vdigests_sublist xs
  | .obj ms sd => by
    simp only [MJ.vdigests, MJ.digests]
    exact (List.Sublist.refl _).append (MMems.vdigests_sublist ms)
theorem MElems.vdigests_sublist : (xs : MElems) → xs.vdigests.Sublist xs.digests
  | .nil => List.Sublist.refl _
  | .clear x r => by
    simp only [MElems.vdigests, MElems.digests]
    exact (MJ.vdigests_sublist x).append (MElems.vdigests_sublist r)
  | .marked dg x r => by
    simp only [MElems.vdigests, MElems.digests]
    exact ((MElems.vdigests_sublist r).trans (List.sublist_append_right _ _)).cons₂ _
  | .decoy dg r => by
    simp only [MElems.vdigests, MElems.digests]
    exact (MElems.vdigests_sublist r).cons₂ _
theorem MMems.vdigests_sublist : (ms : MMems) → ms.vdigests.Sublist ms.digests
  | .nil => List.Sublist.refl _
  | .clear k x r => by
    simp only [MMems.vdigests, MMems.digests]
    exact (MJ.vdigests_sublist x).append (MMems.vdigests_sublist r)
  | .marked k dg x r => by
    simp only [MMems.vdigests, MMems.digests]
    exact (MMems.vdigests_sublist r).trans (List.sublist_append_right _ _)
end

mutual
theorem MJ.topDiscs_sub_discs : (T : MJ) → ∀ e ∈ T.topDiscs, e ∈ T.discs
  | .leaf _, e, h => by simp [MJ.topDiscs] at h
  | .arr xs, e, h => by simpa [MJ.discs] using MElems.topDiscs_sub_discs xs e (by simpa [MJ.topDiscs] using h)
  | .obj ms sd, e, h => by simpa [MJ.discs] using MMems.topDiscs_sub_discs ms e (by simpa [MJ.topDiscs] using h)
theorem MElems.topDiscs_sub_discs : (xs : MElems) → ∀ e ∈ xs.topDiscs, e ∈ xs.discs
  | .nil, e, h => by simp [MElems.topDiscs] at h
  | .clear x r, e, h => by
    simp only [MElems.topDiscs, List.mem_append] at h
    simp only [MElems.discs, List.mem_append]
    exact h.imp (MJ.topDiscs_sub_discs x e) (MElems.topDiscs_sub_discs r e)
  | .marked dg x r, e, h => by
    simp only [MElems.topDiscs, List.mem_cons] at h
    simp only [MElems.discs, List.mem_cons, List.mem_append]
    rcases h with h | h
    · left; exact h
    · right; right; exact MElems.topDiscs_sub_discs r e h
  | .decoy dg r, e, h => by
    simp only [MElems.topDiscs] at h
    simpa [MElems.discs] using MElems.topDiscs_sub_discs r e h
theorem MMems.topDiscs_sub_discs : (ms : MMems) → ∀ e ∈ ms.topDiscs, e ∈ ms.discs
  | .nil, e, h => by simp [MMems.topDiscs] at h
  | .clear k x r, e, h => by
    simp only [MMems.topDiscs, List.mem_append] at h
    simp only [MMems.discs, List.mem_append]
    exact h.imp (MJ.topDiscs_sub_discs x e) (MMems.topDiscs_sub_discs r e)
  | .marked k dg x r, e, h => by
    simp only [MMems.topDiscs, List.mem_cons] at h
    simp only [MMems.discs, List.mem_cons, List.mem_append]
    rcases h with h | h
    · left; exact h
    · right; right; exact MMems.topDiscs_sub_discs r e h
end

mutual
theorem MJ.discs_revealTop (g : String) : (T : MJ) → ∀ e ∈ (T.revealTop g).discs, e ∈ T.discs
  | .leaf _, e, h => by simpa [MJ.revealTop] using h
  | .arr xs, e, h => by
    simpa [MJ.discs] using MElems.discs_revealTop g xs e (by simpa [MJ.revealTop, MJ.discs] using h)
  | .obj ms sd, e, h => by
    simpa [MJ.discs] using MMems.discs_revealTop g ms e (by simpa [MJ.revealTop, MJ.discs] using h)
theorem MElems.discs_revealTop (g : String) : (xs : MElems) → ∀ e ∈ (xs.revealTop g).discs, e ∈ xs.discs
  | .nil, e, h => by simpa [MElems.revealTop] using h
  | .clear x r, e, h => by
    simp only [MElems.revealTop, MElems.discs, List.mem_append] at h ⊢
    exact h.imp (MJ.discs_revealTop g x e) (MElems.discs_revealTop g r e)
  | .marked dg x r, e, h => by
    simp only [MElems.revealTop] at h
    split at h
    · simp only [MElems.discs, List.mem_append] at h
      simp only [MElems.discs, List.mem_cons, List.mem_append]
      rcases h with h | h
      · right; left; exact h
      · right; right; exact MElems.discs_revealTop g r e h
    · simp only [MElems.discs, List.mem_cons, List.mem_append] at h ⊢
      rcases h with h | h | h
      · left; exact h
      · right; left; exact h
      · right; right; exact MElems.discs_revealTop g r e h
  | .decoy dg r, e, h => by
    simp only [MElems.revealTop, MElems.discs] at h ⊢
    exact MElems.discs_revealTop g r e h
theorem MMems.discs_revealTop (g : String) : (ms : MMems) → ∀ e ∈ (ms.revealTop g).discs, e ∈ ms.discs
  | .nil, e, h => by simpa [MMems.revealTop] using h
  | .clear k x r, e, h => by
    simp only [MMems.revealTop, MMems.discs, List.mem_append] at h ⊢
    exact h.imp (MJ.discs_revealTop g x e) (MMems.discs_revealTop g r e)
  | .marked k dg x r, e, h => by
    simp only [MMems.revealTop] at h
    split at h
    · simp only [MMems.discs, List.mem_append] at h
      simp only [MMems.discs, List.mem_cons, List.mem_append]
      rcases h with h | h
      · right; left; exact h
      · right; right; exact MMems.discs_revealTop g r e h
    · simp only [MMems.discs, List.mem_cons, List.mem_append] at h ⊢
      rcases h with h | h | h
      · left; exact h
      · right; left; exact h
      · right; right; exact MMems.discs_revealTop g r e h
end
