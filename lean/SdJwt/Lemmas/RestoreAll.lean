import SdJwt.Lemmas.Rounds
import SdJwt.Lemmas.Reject
/-! T-restore assembled: from presented strings to the projection. -/
open Assoc Spec
namespace Impl

/-- a successful decoding of the list yields disclosures with pairwise distinct digests, one per
presented string, in order -/
theorem decodeAll_ok (env : Env) : (ss : List String) → (acc ds : List Disc) →
    decodeAll env ss acc = .ok ds → Distinct acc.reverse →
    Distinct ds ∧ (∀ d ∈ ds, d ∈ acc ∨ ∃ s ∈ ss, fromBase64 env s = .ok d) ∧
    (∀ s ∈ ss, ∃ d ∈ ds, fromBase64 env s = .ok d) ∧ (∀ d ∈ acc, d ∈ ds)
  | [], acc, ds, h, hacc => by
    simp [decodeAll] at h
    subst h
    exact ⟨hacc, by simp, by simp, by simp⟩
  | s :: r, acc, ds, h, hacc => by
    unfold decodeAll at h
    cases hf : fromBase64 env s with
    | panic => simp [hf] at h
    | err e => simp [hf] at h
    | ok d =>
      simp only [hf] at h
      split at h
      · cases h
      · rename_i hnot
        have hacc' : Distinct (d :: acc).reverse := by
          simp only [List.reverse_cons, Distinct, List.pairwise_append, List.mem_reverse, List.mem_singleton,
            forall_eq]
          refine ⟨hacc, by simp, ?_⟩
          intro a ha e
          apply hnot
          simp only [List.any_eq_true, decide_eq_true_eq]
          exact ⟨a, ha, e⟩
        obtain ⟨h1, h2, h3, h4⟩ := decodeAll_ok env r (d :: acc) ds h hacc'
        refine ⟨h1, ?_, ?_, fun x hx => h4 x (by simp [hx])⟩
        · intro x hx
          rcases h2 x hx with hh | ⟨s', hs', hd'⟩
          · simp only [List.mem_cons] at hh
            rcases hh with hh | hh
            · right; exact ⟨s, by simp, hh ▸ hf⟩
            · left; exact hh
          · right; exact ⟨s', by simp [hs'], hd'⟩
        · intro s' hs'
          simp only [List.mem_cons] at hs'
          rcases hs' with hs' | hs'
          · subst hs'; exact ⟨d, h4 d (by simp), hf⟩
          · exact h3 s' hs'

theorem fromBase64_digest (env : Env) (s : String) (d : Disc) (h : fromBase64 env s = .ok d) :
    d.digest = env.hash s := by
  unfold fromBase64 at h
  split at h
  · cases h
  · cases h; rfl
  · split at h
    · split at h
      · cases h
      · cases h; rfl
    · cases h
  · cases h

/-- **T-restore.** For a conformant tree `T` (well formed, all digests distinct) and ANY list of
presented strings whose decodable members are acceptable for `T` (agree with the tree's node of
the same digest — collision resistance —, do not collide with a decoy): restoration either
fails, or yields claims that strip to the original claims with exactly the marked nodes present
whose digest — and whose enclosing marked nodes' digests — are hashes of presented strings. -/
theorem restoreAll_sound (env : Env) (T : MJ) (strs : List String) (inv : TreeInv T)
    (hacc : ∀ s ∈ strs, ∀ d, fromBase64 env s = .ok d → DOk T d) :
    (∃ e, restoreAll env T.payload strs = .err e) ∨
    ∃ c ps, restoreAll env T.payload strs = .ok (c, ps) ∧
      removeAll c = T.project (fun h => strs.any (fun s => env.hash s = h)) := by
  have hnp := restoreAll_noPanic env T.payload strs
  cases hres : restoreAll env T.payload strs with
  | panic => exact absurd hres hnp
  | err e => left; exact ⟨e, rfl⟩
  | ok r =>
    right
    unfold restoreAll at hres
    cases hd : decodeAll env strs [] with
    | panic => simp [hd] at hres
    | err e => simp [hd] at hres
    | ok L =>
      simp only [hd] at hres
      obtain ⟨hdist, hfrom, hto, _⟩ := decodeAll_ok env strs [] L hd (by simp [Distinct])
      have hok : ∀ d ∈ L, DOk T d := by
        intro d hd'
        rcases hfrom d hd' with h | ⟨s, hs, hf⟩
        · simp at h
        · exact hacc s hs d hf
      obtain ⟨c, ps, hr, hp⟩ := rounds_project T L inv hok hdist
      unfold restoreDecoded at hres
      cases hc : checkDigests T.payload [] with
      | panic => simp [hc] at hres
      | err e => simp [hc] at hres
      | ok seen =>
        simp only [hc] at hres
        cases hv : checkValues L seen with
        | panic => simp [hv] at hres
        | err e => simp [hv] at hres
        | ok s' =>
          simp only [hv] at hres
          rw [show T.payload = T.hview noneShown from rfl] at hres
          rw [hr] at hres
          cases hres
          refine ⟨c, ps, rfl, ?_⟩
          rw [hp]
          apply MJ.project_congr
          intro g _
          -- the two selectors agree: digests of decoded disclosures = hashes of presented strings
          apply Bool.eq_iff_iff.mpr
          simp only [List.any_eq_true, decide_eq_true_eq]
          constructor
          · rintro ⟨d, hd', hdg⟩
            rcases hfrom d hd' with h | ⟨s, hs, hf⟩
            · simp at h
            · exact ⟨s, hs, by rw [← fromBase64_digest env s d hf, hdg]⟩
          · rintro ⟨s, hs, hsg⟩
            obtain ⟨d, hd', hf⟩ := hto s hs
            exact ⟨d, hd', by rw [fromBase64_digest env s d hf, hsg]⟩

/-- `remove_digests` = `remove_all_digests` after dropping the top-level `_sd_alg` -/
theorem removeM_adel (k : String) (hk : k ≠ "_sd") : (ms : List (String × J)) →
    removeAll.removeM (adel k ms) = adel k (removeAll.removeM ms)
  | [] => rfl
  | (k', v) :: r => by
    by_cases h1 : k = k'
    · subst h1
      simp [adel, removeAll.removeM, hk]
    · by_cases h2 : k' = "_sd"
      · subst h2
        simp [adel, hk, removeAll.removeM, removeM_adel k hk r]
      · simp [adel, h1, removeAll.removeM, h2, removeM_adel k hk r]

theorem removeDigests_obj (ms : List (String × J)) :
    removeDigests (.obj ms) = .obj (adel "_sd_alg" (removeAll.removeM ms)) := by
  simp [removeDigests, removeAll, removeM_adel "_sd_alg" (by decide)]

end Impl
