import SdJwt.Lemmas.Step
import SdJwt.Lemmas.Marks
/-!
T-restore, the rounds: `restore_disclosures` on the payload of a conformant tree `T` with a list
`L` of decoded disclosures (pairwise distinct digests; each agreeing with the tree's node of the
same digest, if any; none colliding with a decoy) ends in the payload of a tree that projects to
`T.project (· ∈ digests of L)`.
-/
open Assoc Spec Path
namespace Impl

/-- what is maintained about the tree while disclosures are put back -/
structure TreeInv (T : MJ) : Prop where
  wf : T.WF
  nd : T.digests.Nodup
  ndm : T.allMarks.Nodup

/-- what is maintained about a pending disclosure: its digest is not a decoy or the digest of an
already revealed member, and it agrees with the tree's node of the same digest (if any) -/
structure DOk (T : MJ) (d : Disc) : Prop where
  fresh : d.digest ∉ T.deepStale
  mat : Match d T.discs

/-- pairwise distinct digests -/
def Distinct (L : List Disc) : Prop := L.Pairwise (fun a b => a.digest ≠ b.digest)

theorem TreeInv.reveal {T : MJ} (inv : TreeInv T) (g : String) : TreeInv (T.revealTop g) where
  wf := MJ.wf_revealTop g T inv.wf
  nd := (MJ.digests_revealTop g T).nodup inv.nd
  ndm := (MJ.allMarks_revealTop g T).nodup inv.ndm

theorem DOk.reveal {T : MJ} {d : Disc} (h : DOk T d) (g : String) (hne : d.digest ≠ g) :
    DOk (T.revealTop g) d where
  fresh := fun hh => by
    rcases MJ.deepStale_revealTop g T _ hh with h1 | h1
    · exact h.fresh h1
    · exact hne h1
  mat := h.mat.mono (MJ.discs_revealTop g T)

/-- one round, specified on trees: resulting tree, unplaced, digests placed, paths reported -/
def specRound : MJ → List Disc → MJ × List Disc × List String × List PathEntry
  | T, [] => (T, [], [], [])
  | T, d :: r =>
    let out := specRound (T.revealTop d.digest) r
    (out.1,
     (if d.digest ∈ T.topMarks then out.2.1 else d :: out.2.1),
     (if d.digest ∈ T.topMarks then d.digest :: out.2.2.1 else out.2.2.1),
     (T.tpaths d.digest "").map (fun p => (p, d)) ++ out.2.2.2)

/-- the model's round on the payload is the specified round on the tree -/
theorem roundOnce_spec : (L : List Disc) → (T : MJ) → TreeInv T → (∀ d ∈ L, DOk T d) → Distinct L →
    roundOnce (T.hview noneShown) L =
      .ok ((specRound T L).1.hview noneShown, (specRound T L).2.1, (specRound T L).2.2.2)
  | [], T, _, _, _ => by simp [roundOnce, specRound]
  | d :: r, T, inv, hok, hdist => by
    have hd := hok d (by simp)
    have hstep := MJ.step d T "" inv.wf ((MJ.vdigests_sublist T).nodup inv.nd)
      (fun h => hd.fresh (MJ.stale_sub_deep T _ h)) (hd.mat.mono (MJ.topDiscs_sub_discs T))
    simp only [Distinct, List.pairwise_cons] at hdist
    have ih := roundOnce_spec r (T.revealTop d.digest) (inv.reveal _)
      (fun e he => (hok e (by simp [he])).reveal _ (fun e' => hdist.1 e he e'.symm)) hdist.2
    simp only [roundOnce, hstep, ih, specRound]
    by_cases hf : d.digest ∈ T.topMarks <;> simp [hf]

theorem specRound_treeInv : (L : List Disc) → (T : MJ) → TreeInv T → TreeInv (specRound T L).1
  | [], _, inv => by simpa [specRound] using inv
  | d :: r, T, inv => by simpa [specRound] using specRound_treeInv r _ (inv.reveal d.digest)

/-- unplaced ones are from the list; placed digests are digests of the list -/
theorem specRound_sub : (L : List Disc) → (T : MJ) →
    (∀ u ∈ (specRound T L).2.1, u ∈ L) ∧ (∀ g ∈ (specRound T L).2.2.1, ∃ d ∈ L, d.digest = g) ∧
    (∀ d ∈ L, d ∈ (specRound T L).2.1 ∨ d.digest ∈ (specRound T L).2.2.1) ∧
    (specRound T L).2.1.length + (specRound T L).2.2.1.length = L.length ∧
    (specRound T L).2.1.Sublist L
  | [], _ => by simp [specRound]
  | d :: r, T => by
    obtain ⟨h1, h2, h3, h4, h5⟩ := specRound_sub r (T.revealTop d.digest)
    simp only [specRound]
    by_cases hf : d.digest ∈ T.topMarks
    · simp only [hf, if_true]
      refine ⟨fun u hu => by simp [h1 u hu], ?_, ?_, by simp; omega, h5.trans (List.sublist_cons_self _ _)⟩
      · intro g hg
        simp only [List.mem_cons] at hg
        rcases hg with hg | hg
        · exact ⟨d, by simp, hg.symm⟩
        · obtain ⟨e, he, hge⟩ := h2 g hg; exact ⟨e, by simp [he], hge⟩
      · intro e he
        simp only [List.mem_cons] at he
        rcases he with he | he
        · right; simp [he]
        · rcases h3 e he with h | h
          · left; exact h
          · right; simp [h]
    · simp only [hf, if_false]
      refine ⟨?_, ?_, ?_, by simp; omega, h5.cons₂ _⟩
      · intro u hu
        simp only [List.mem_cons] at hu ⊢
        exact hu.imp id (h1 u)
      · intro g hg; obtain ⟨e, he, hge⟩ := h2 g hg; exact ⟨e, by simp [he], hge⟩
      · intro e he
        simp only [List.mem_cons] at he
        rcases he with he | he
        · left; simp [he]
        · rcases h3 e he with h | h
          · left; simp [h]
          · right; exact h

/-- a disclosure whose digest is not placed during the round stays acceptable -/
theorem specRound_dok : (L : List Disc) → (T : MJ) → (d0 : Disc) → DOk T d0 →
    d0.digest ∉ (specRound T L).2.2.1 → DOk (specRound T L).1 d0
  | [], _, _, h, _ => by simpa [specRound] using h
  | d :: r, T, d0, h, hnp => by
    simp only [specRound] at hnp ⊢
    by_cases hf : d.digest ∈ T.topMarks
    · simp only [hf, if_true, List.mem_cons, not_or] at hnp
      exact specRound_dok r _ d0 (h.reveal _ hnp.1) hnp.2
    · simp only [hf, if_false] at hnp
      rw [MJ.revealTop_id _ T hf] at hnp ⊢
      exact specRound_dok r T d0 h hnp

/-- with pairwise distinct digests, an unplaced disclosure's digest is not among the placed ones -/
theorem specRound_unplaced_not_placed : (L : List Disc) → (T : MJ) → Distinct L →
    ∀ u ∈ (specRound T L).2.1, u.digest ∉ (specRound T L).2.2.1
  | [], _, _, u, hu => by simp [specRound] at hu
  | d :: r, T, hd, u, hu => by
    simp only [Distinct, List.pairwise_cons] at hd
    obtain ⟨h1, h2, _, _, _⟩ := specRound_sub r (T.revealTop d.digest)
    have ih := specRound_unplaced_not_placed r (T.revealTop d.digest) hd.2
    simp only [specRound] at hu ⊢
    by_cases hf : d.digest ∈ T.topMarks
    · simp only [hf, if_true] at hu ⊢
      simp only [List.mem_cons, not_or]
      exact ⟨fun e => hd.1 u (h1 u hu) e.symm, ih u hu⟩
    · simp only [hf, if_false, List.mem_cons] at hu ⊢
      rcases hu with hu | hu
      · subst hu
        intro hp
        obtain ⟨e, he, hge⟩ := h2 _ hp
        exact hd.1 e he hge.symm
      · exact ih u hu

theorem specRound_distinct (L : List Disc) (T : MJ) (hd : Distinct L) : Distinct (specRound T L).2.1 :=
  List.Pairwise.sublist (specRound_sub L T).2.2.2.2 hd

/-- projecting the tree after a round = projecting the tree before it with the placed digests added -/
theorem specRound_project : (L : List Disc) → (T : MJ) → TreeInv T → ∀ S : String → Bool,
    (specRound T L).1.project S = T.project (fun h => (specRound T L).2.2.1.contains h || S h)
  | [], T, _, S => by simp [specRound]
  | d :: r, T, inv, S => by
    have ih := specRound_project r (T.revealTop d.digest) (inv.reveal _) S
    simp only [specRound]
    rw [ih]
    by_cases hf : d.digest ∈ T.topMarks
    · simp only [hf, if_true]
      rw [MJ.project_revealTop _ _ T (MJ.top_not_hidden T inv.ndm _ hf)]
      congr 1
      funext h
      simp only [withShown, List.contains_cons]
      by_cases e : h = d.digest <;> simp [e, Bool.or_assoc]
    · simp only [hf, if_false]
      rw [MJ.revealTop_id _ T hf]

/-- once placed, a digest is no longer a mark of the tree -/
theorem specRound_placed_gone : (L : List Disc) → (T : MJ) → TreeInv T →
    ∀ g ∈ (specRound T L).2.2.1, g ∉ (specRound T L).1.allMarks
  | [], _, _, g, hg => by simp [specRound] at hg
  | d :: r, T, inv, g, hg => by
    simp only [specRound] at hg ⊢
    by_cases hf : d.digest ∈ T.topMarks
    · simp only [hf, if_true, List.mem_cons] at hg
      rcases hg with hg | hg
      · subst hg
        intro hh
        -- marks only shrink along the round
        have hsub : ∀ (L : List Disc) (T : MJ), (specRound T L).1.allMarks.Sublist T.allMarks := by
          intro L
          induction L with
          | nil => intro T; simp [specRound]
          | cons e rest ih => intro T; simp only [specRound]; exact (ih _).trans (MJ.allMarks_revealTop _ T)
        exact MJ.revealed_gone _ T inv.ndm hf ((hsub r _).subset hh)
      · exact specRound_placed_gone r _ (inv.reveal _) g hg
    · simp only [hf, if_false] at hg
      exact specRound_placed_gone r _ (inv.reveal _) g hg

/-- a round that places nothing leaves the tree as it is, and then no pending digest is visible -/
theorem specRound_noprogress : (L : List Disc) → (T : MJ) → (specRound T L).2.1.length = L.length →
    (specRound T L).1 = T ∧ ∀ d ∈ L, d.digest ∉ T.topMarks
  | [], _, _ => by simp [specRound]
  | d :: r, T, h => by
    obtain ⟨_, _, _, hlen, _⟩ := specRound_sub r (T.revealTop d.digest)
    simp only [specRound] at h ⊢
    by_cases hf : d.digest ∈ T.topMarks
    · simp only [hf, if_true, List.length_cons] at h
      omega
    · simp only [hf, if_false, List.length_cons] at h
      rw [MJ.revealTop_id _ T hf] at h ⊢
      obtain ⟨h1, h2⟩ := specRound_noprogress r T (by omega)
      refine ⟨h1, ?_⟩
      intro e he
      simp only [List.mem_cons] at he
      rcases he with he | he
      · subst he; exact hf
      · exact h2 e he

theorem specRound_allMarks_sub : (L : List Disc) → (T : MJ) → (specRound T L).1.allMarks.Sublist T.allMarks
  | [], _ => by simp [specRound]
  | d :: r, T => by
    simp only [specRound]
    exact (specRound_allMarks_sub r _).trans (MJ.allMarks_revealTop _ T)

/-- what the rounds arrive at -/
structure RoundsResult (T : MJ) (L : List Disc) (Tf : MJ) (placed : List String) : Prop where
  inv : TreeInv Tf
  proj : ∀ S : String → Bool, Tf.project S = T.project (fun h => placed.contains h || S h)
  fromL : ∀ g ∈ placed, ∃ d ∈ L, d.digest = g
  gone : ∀ g ∈ placed, g ∉ Tf.allMarks
  marksSub : Tf.allMarks.Sublist T.allMarks
  done : ∀ d ∈ L, d.digest ∈ placed ∨ d.digest ∉ Tf.topMarks

theorem rounds_spec : (n : Nat) → (T : MJ) → (L : List Disc) → (acc : List PathEntry) → L.length ≤ n →
    TreeInv T → (∀ d ∈ L, DOk T d) → Distinct L →
    ∃ Tf placed ps, rounds n (T.hview noneShown) L acc = .ok (Tf.hview noneShown, acc ++ ps) ∧
      RoundsResult T L Tf placed
  | 0, T, L, acc, hlen, inv, _, _ => by
    have : L = [] := List.length_eq_zero_iff.mp (by omega)
    subst this
    exact ⟨T, [], [], by simp [rounds], ⟨inv, by simp, by simp, by simp, List.Sublist.refl _, by simp⟩⟩
  | n+1, T, L, acc, hlen, inv, hok, hdist => by
    by_cases hempty : L = []
    · subst hempty
      exact ⟨T, [], [], by simp [rounds], ⟨inv, by simp, by simp, by simp, List.Sublist.refl _, by simp⟩⟩
    · have hne : L.isEmpty = false := by
        cases L with
        | nil => exact absurd rfl hempty
        | cons a r => rfl
      have hround := roundOnce_spec L T inv hok hdist
      obtain ⟨hs1, hs2, hs3, hs4, hs5⟩ := specRound_sub L T
      by_cases hprog : (specRound T L).2.1.length = L.length
      · -- a round that places nothing: stop
        obtain ⟨hT, hnone⟩ := specRound_noprogress L T hprog
        refine ⟨T, [], (specRound T L).2.2.2, ?_, ⟨inv, by simp, by simp, by simp, List.Sublist.refl _, ?_⟩⟩
        · simp [rounds, hne, hround, hprog, hT]
        · intro d hd; right; exact hnone d hd
      · have hlt : (specRound T L).2.1.length ≤ n := by
          have := hs5.length_le
          omega
        have inv1 := specRound_treeInv L T inv
        have hok1 : ∀ u ∈ (specRound T L).2.1, DOk (specRound T L).1 u := fun u hu =>
          specRound_dok L T u (hok u (hs1 u hu)) (specRound_unplaced_not_placed L T hdist u hu)
        obtain ⟨Tf, placed2, ps2, hr, res⟩ := rounds_spec n (specRound T L).1 (specRound T L).2.1
          (acc ++ (specRound T L).2.2.2) hlt inv1 hok1 (specRound_distinct L T hdist)
        refine ⟨Tf, (specRound T L).2.2.1 ++ placed2, (specRound T L).2.2.2 ++ ps2, ?_, ⟨res.inv, ?_, ?_, ?_, ?_, ?_⟩⟩
        · simp [rounds, hne, hround, hprog, hr, List.append_assoc]
        · intro S
          rw [res.proj S, specRound_project L T inv]
          congr 1
          funext h
          simp [List.contains_append, Bool.or_assoc]
        · intro g hg
          simp only [List.mem_append] at hg
          rcases hg with hg | hg
          · exact hs2 g hg
          · obtain ⟨d, hd, hdg⟩ := res.fromL g hg
            exact ⟨d, hs1 d hd, hdg⟩
        · intro g hg
          simp only [List.mem_append] at hg
          rcases hg with hg | hg
          · exact fun hh => specRound_placed_gone L T inv g hg (res.marksSub.subset hh)
          · exact res.gone g hg
        · exact res.marksSub.trans (specRound_allMarks_sub L T)
        · intro d hd
          rcases hs3 d hd with h | h
          · rcases res.done d h with h1 | h1
            · left; simp [h1]
            · right; exact h1
          · left; simp [h]

/-- **T-restore (claims).** For a conformant tree `T` and decoded disclosures `L` with pairwise
distinct digests, each acceptable for `T`: the rounds end, and stripping what they produce gives
the original claims with exactly the marked nodes whose digest is in `L` — and whose enclosing
marked nodes' digests are in `L` — present. -/
theorem rounds_project (T : MJ) (L : List Disc) (inv : TreeInv T) (hok : ∀ d ∈ L, DOk T d)
    (hdist : Distinct L) :
    ∃ c ps, rounds L.length (T.hview noneShown) L [] = .ok (c, ps) ∧
      removeAll c = T.project (fun h => L.any (fun d => d.digest = h)) := by
  obtain ⟨Tf, placed, ps, hr, res⟩ := rounds_spec L.length T L [] (Nat.le_refl _) inv hok hdist
  refine ⟨_, _, by simpa using hr, ?_⟩
  rw [MJ.removeAll_hview noneShown Tf res.inv.wf]
  let Q : String → Bool := fun h => L.any (fun d => d.digest = h)
  have hq : ∀ g ∈ Tf.topMarks, Q g = false := by
    intro g hg
    cases hQ : Q g with
    | false => rfl
    | true =>
      exfalso
      simp only [Q, List.any_eq_true, decide_eq_true_eq] at hQ
      obtain ⟨d, hd, hdg⟩ := hQ
      rcases res.done d hd with h | h
      · exact res.gone _ h (MJ.topMarks_sub_all Tf _ (hdg ▸ hg))
      · exact h (hdg ▸ hg)
  rw [← MJ.project_not_top Q Tf hq, res.proj Q]
  apply MJ.project_congr
  intro g _
  simp only [Q]
  cases hc : placed.contains g with
  | false => simp
  | true =>
    simp only [Bool.true_or]
    have hm : g ∈ placed := by simpa using hc
    obtain ⟨d, hd, hdg⟩ := res.fromL g hm
    symm
    simp only [List.any_eq_true, decide_eq_true_eq]
    exact ⟨d, hd, hdg⟩

end Impl
