import SdJwt.Lemmas.Step
import SdJwt.Lemmas.Marks
import SdJwt.Lemmas.Paths
/-!
T-restore, the rounds: `restore_disclosures` on the payload of a conformant tree `T` with a list
`L` of decoded disclosures (pairwise distinct digests; each agreeing with the tree's node of the
same digest, if any; none colliding with a decoy) ends in the payload of a tree that projects to
`T.project (· ∈ digests of L)`.
-/
open Assoc Spec Path
namespace Impl

/-- what is maintained about the tree while disclosures are put back -/
structure TreeInv (T : MJ) : Prop where
  wf : T.WF
  nd : T.digests.Nodup
  ndm : T.allMarks.Nodup

/-- what is maintained about a pending disclosure: its digest is not a decoy or the digest of an
already revealed member, and it agrees with the tree's node of the same digest (if any) -/
structure DOk (T : MJ) (d : Disc) : Prop where
  fresh : d.digest ∉ T.deepStale
  mat : Match d T.discs

/-- pairwise distinct digests -/
def Distinct (L : List Disc) : Prop := L.Pairwise (fun a b => a.digest ≠ b.digest)

theorem TreeInv.reveal {T : MJ} (inv : TreeInv T) (g : String) : TreeInv (T.revealTop g) where
  wf := MJ.wf_revealTop g T inv.wf
  nd := (MJ.digests_revealTop g T).nodup inv.nd
  ndm := (MJ.allMarks_revealTop g T).nodup inv.ndm

theorem DOk.reveal {T : MJ} {d : Disc} (h : DOk T d) (g : String) (hne : d.digest ≠ g) :
    DOk (T.revealTop g) d where
  fresh := fun hh => by
    rcases MJ.deepStale_revealTop g T _ hh with h1 | h1
    · exact h.fresh h1
    · exact hne h1
  mat := h.mat.mono (MJ.discs_revealTop g T)

/-- one round, specified on trees: resulting tree, unplaced, digests placed, paths reported -/
def specRound : MJ → List Disc → MJ × List Disc × List String × List PathEntry
  | T, [] => (T, [], [], [])
  | T, d :: r =>
    let out := specRound (T.revealTop d.digest) r
    (out.1,
     (if d.digest ∈ T.topMarks then out.2.1 else d :: out.2.1),
     (if d.digest ∈ T.topMarks then d.digest :: out.2.2.1 else out.2.2.1),
     (T.tpaths d.digest "").map (fun p => (p, d)) ++ out.2.2.2)

/-- the model's round on the payload is the specified round on the tree -/
theorem roundOnce_spec : (L : List Disc) → (T : MJ) → TreeInv T → (∀ d ∈ L, DOk T d) → Distinct L →
    roundOnce (T.hview noneShown) L =
      .ok ((specRound T L).1.hview noneShown, (specRound T L).2.1, (specRound T L).2.2.2)
  | [], T, _, _, _ => by simp [roundOnce, specRound]
  | d :: r, T, inv, hok, hdist => by
    have hd := hok d (by simp)
    have hstep := MJ.step d T "" inv.wf ((MJ.vdigests_sublist T).nodup inv.nd)
      (fun h => hd.fresh (MJ.stale_sub_deep T _ h)) (hd.mat.mono (MJ.topDiscs_sub_discs T))
    simp only [Distinct, List.pairwise_cons] at hdist
    have ih := roundOnce_spec r (T.revealTop d.digest) (inv.reveal _)
      (fun e he => (hok e (by simp [he])).reveal _ (fun e' => hdist.1 e he e'.symm)) hdist.2
    simp only [roundOnce, hstep, ih, specRound]
    by_cases hf : d.digest ∈ T.topMarks <;> simp [hf]

theorem specRound_treeInv : (L : List Disc) → (T : MJ) → TreeInv T → TreeInv (specRound T L).1
  | [], _, inv => by simpa [specRound] using inv
  | d :: r, T, inv => by simpa [specRound] using specRound_treeInv r _ (inv.reveal d.digest)

/-- unplaced ones are from the list; placed digests are digests of the list -/
theorem specRound_sub : (L : List Disc) → (T : MJ) →
    (∀ u ∈ (specRound T L).2.1, u ∈ L) ∧ (∀ g ∈ (specRound T L).2.2.1, ∃ d ∈ L, d.digest = g) ∧
    (∀ d ∈ L, d ∈ (specRound T L).2.1 ∨ d.digest ∈ (specRound T L).2.2.1) ∧
    (specRound T L).2.1.length + (specRound T L).2.2.1.length = L.length ∧
    (specRound T L).2.1.Sublist L
  | [], _ => by simp [specRound]
  | d :: r, T => by
    obtain ⟨h1, h2, h3, h4, h5⟩ := specRound_sub r (T.revealTop d.digest)
    simp only [specRound]
    by_cases hf : d.digest ∈ T.topMarks
    · simp only [hf, if_true]
      refine ⟨fun u hu => by simp [h1 u hu], ?_, ?_, by simp; omega, h5.trans (List.sublist_cons_self _ _)⟩
      · intro g hg
        simp only [List.mem_cons] at hg
        rcases hg with hg | hg
        · exact ⟨d, by simp, hg.symm⟩
        · obtain ⟨e, he, hge⟩ := h2 g hg; exact ⟨e, by simp [he], hge⟩
      · intro e he
        simp only [List.mem_cons] at he
        rcases he with he | he
        · right; simp [he]
        · rcases h3 e he with h | h
          · left; exact h
          · right; simp [h]
    · simp only [hf, if_false]
      refine ⟨?_, ?_, ?_, by simp; omega, h5.cons₂ _⟩
      · intro u hu
        simp only [List.mem_cons] at hu ⊢
        exact hu.imp id (h1 u)
      · intro g hg; obtain ⟨e, he, hge⟩ := h2 g hg; exact ⟨e, by simp [he], hge⟩
      · intro e he
        simp only [List.mem_cons] at he
        rcases he with he | he
        · left; simp [he]
        · rcases h3 e he with h | h
          · left; simp [h]
          · right; exact h

/-- a disclosure whose digest is not placed during the round stays acceptable -/
theorem specRound_dok : (L : List Disc) → (T : MJ) → (d0 : Disc) → DOk T d0 →
    d0.digest ∉ (specRound T L).2.2.1 → DOk (specRound T L).1 d0
  | [], _, _, h, _ => by simpa [specRound] using h
  | d :: r, T, d0, h, hnp => by
    simp only [specRound] at hnp ⊢
    by_cases hf : d.digest ∈ T.topMarks
    · simp only [hf, if_true, List.mem_cons, not_or] at hnp
      exact specRound_dok r _ d0 (h.reveal _ hnp.1) hnp.2
    · simp only [hf, if_false] at hnp
      rw [MJ.revealTop_id _ T hf] at hnp ⊢
      exact specRound_dok r T d0 h hnp

/-- with pairwise distinct digests, an unplaced disclosure's digest is not among the placed ones -/
theorem specRound_unplaced_not_placed : (L : List Disc) → (T : MJ) → Distinct L →
    ∀ u ∈ (specRound T L).2.1, u.digest ∉ (specRound T L).2.2.1
  | [], _, _, u, hu => by simp [specRound] at hu
  | d :: r, T, hd, u, hu => by
    simp only [Distinct, List.pairwise_cons] at hd
    obtain ⟨h1, h2, _, _, _⟩ := specRound_sub r (T.revealTop d.digest)
    have ih := specRound_unplaced_not_placed r (T.revealTop d.digest) hd.2
    simp only [specRound] at hu ⊢
    by_cases hf : d.digest ∈ T.topMarks
    · simp only [hf, if_true] at hu ⊢
      simp only [List.mem_cons, not_or]
      exact ⟨fun e => hd.1 u (h1 u hu) e.symm, ih u hu⟩
    · simp only [hf, if_false, List.mem_cons] at hu ⊢
      rcases hu with hu | hu
      · subst hu
        intro hp
        obtain ⟨e, he, hge⟩ := h2 _ hp
        exact hd.1 e he hge.symm
      · exact ih u hu

theorem specRound_distinct (L : List Disc) (T : MJ) (hd : Distinct L) : Distinct (specRound T L).2.1 :=
  List.Pairwise.sublist (specRound_sub L T).2.2.2.2 hd

/-- projecting the tree after a round = projecting the tree before it with the placed digests added -/
theorem specRound_project : (L : List Disc) → (T : MJ) → TreeInv T → ∀ S : String → Bool,
    (specRound T L).1.project S = T.project (fun h => (specRound T L).2.2.1.contains h || S h)
  | [], T, _, S => by simp [specRound]
  | d :: r, T, inv, S => by
    have ih := specRound_project r (T.revealTop d.digest) (inv.reveal _) S
    simp only [specRound]
    rw [ih]
    by_cases hf : d.digest ∈ T.topMarks
    · simp only [hf, if_true]
      rw [MJ.project_revealTop _ _ T (MJ.top_not_hidden T inv.ndm _ hf)]
      congr 1
      funext h
      simp only [withShown, List.contains_cons]
      by_cases e : h = d.digest <;> simp [e, Bool.or_assoc]
    · simp only [hf, if_false]
      rw [MJ.revealTop_id _ T hf]

/-- once placed, a digest is no longer a mark of the tree -/
theorem specRound_placed_gone : (L : List Disc) → (T : MJ) → TreeInv T →
    ∀ g ∈ (specRound T L).2.2.1, g ∉ (specRound T L).1.allMarks
  | [], _, _, g, hg => by simp [specRound] at hg
  | d :: r, T, inv, g, hg => by
    simp only [specRound] at hg ⊢
    by_cases hf : d.digest ∈ T.topMarks
    · simp only [hf, if_true, List.mem_cons] at hg
      rcases hg with hg | hg
      · subst hg
        intro hh
        -- marks only shrink along the round
        have hsub : ∀ (L : List Disc) (T : MJ), (specRound T L).1.allMarks.Sublist T.allMarks := by
          intro L
          induction L with
          | nil => intro T; simp [specRound]
          | cons e rest ih => intro T; simp only [specRound]; exact (ih _).trans (MJ.allMarks_revealTop _ T)
        exact MJ.revealed_gone _ T inv.ndm hf ((hsub r _).subset hh)
      · exact specRound_placed_gone r _ (inv.reveal _) g hg
    · simp only [hf, if_false] at hg
      exact specRound_placed_gone r _ (inv.reveal _) g hg

/-- a round that places nothing leaves the tree as it is, and then no pending digest is visible -/
theorem specRound_noprogress : (L : List Disc) → (T : MJ) → (specRound T L).2.1.length = L.length →
    (specRound T L).1 = T ∧ ∀ d ∈ L, d.digest ∉ T.topMarks
  | [], _, _ => by simp [specRound]
  | d :: r, T, h => by
    obtain ⟨_, _, _, hlen, _⟩ := specRound_sub r (T.revealTop d.digest)
    simp only [specRound] at h ⊢
    by_cases hf : d.digest ∈ T.topMarks
    · simp only [hf, if_true, List.length_cons] at h
      omega
    · simp only [hf, if_false, List.length_cons] at h
      rw [MJ.revealTop_id _ T hf] at h ⊢
      obtain ⟨h1, h2⟩ := specRound_noprogress r T (by omega)
      refine ⟨h1, ?_⟩
      intro e he
      simp only [List.mem_cons] at he
      rcases he with he | he
      · subst he; exact hf
      · exact h2 e he

theorem specRound_allMarks_sub : (L : List Disc) → (T : MJ) → (specRound T L).1.allMarks.Sublist T.allMarks
  | [], _ => by simp [specRound]
  | d :: r, T => by
    simp only [specRound]
    exact (specRound_allMarks_sub r _).trans (MJ.allMarks_revealTop _ T)

mutual
theorem _root_.MJ.topMarks_sublist_all : (T : MJ) → T.topMarks.Sublist T.allMarks
  | .leaf _ => by simp [MJ.topMarks, MJ.allMarks]
  | .arr xs => by simpa [MJ.topMarks, MJ.allMarks] using MElems.topMarks_sublist_all xs
  | .obj ms _ => by simpa [MJ.topMarks, MJ.allMarks] using MMems.topMarks_sublist_all ms
theorem _root_.MElems.topMarks_sublist_all : (xs : MElems) → xs.topMarks.Sublist xs.allMarks
  | .nil => by simp [MElems.topMarks, MElems.allMarks]
  | .clear x r => by
    simp only [MElems.topMarks, MElems.allMarks]
    exact (MJ.topMarks_sublist_all x).append (MElems.topMarks_sublist_all r)
  | .marked dg x r => by
    simp only [MElems.topMarks, MElems.allMarks]
    exact ((MElems.topMarks_sublist_all r).trans (List.sublist_append_right _ _)).cons₂ _
  | .decoy _ r => by simpa [MElems.topMarks, MElems.allMarks] using MElems.topMarks_sublist_all r
theorem _root_.MMems.topMarks_sublist_all : (ms : MMems) → ms.topMarks.Sublist ms.allMarks
  | .nil => by simp [MMems.topMarks, MMems.allMarks]
  | .clear k x r => by
    simp only [MMems.topMarks, MMems.allMarks]
    exact (MJ.topMarks_sublist_all x).append (MMems.topMarks_sublist_all r)
  | .marked k dg x r => by
    simp only [MMems.topMarks, MMems.allMarks]
    exact ((MMems.topMarks_sublist_all r).trans (List.sublist_append_right _ _)).cons₂ _
end

/-- what one round reports: every entry is the pointer, in the ORIGINAL tree, of the node marked
with the entry's digest; exactly one entry per placed digest, in placing order; and the marked
nodes that remain keep their pointers -/
theorem specRound_paths : (L : List Disc) → (T : MJ) → T.allMarks.Nodup →
    (∀ e ∈ (specRound T L).2.2.2, (e.1, e.2.digest) ∈ T.paths "" ∧ e.2 ∈ L) ∧
    (specRound T L).2.2.2.map (·.2.digest) = (specRound T L).2.2.1 ∧
    (∀ e ∈ (specRound T L).1.paths "", e ∈ T.paths "")
  | [], T, _ => by simp [specRound]
  | d :: r, T, nd => by
    have nd' : (T.revealTop d.digest).allMarks.Nodup := (MJ.allMarks_revealTop d.digest T).nodup nd
    obtain ⟨h1, h2, h3⟩ := specRound_paths r (T.revealTop d.digest) nd'
    simp only [specRound]
    refine ⟨?_, ?_, fun e he => MJ.paths_revealTop d.digest T "" e (h3 e he)⟩
    · intro e he
      simp only [List.mem_append, List.mem_map] at he
      rcases he with ⟨q, hq, rfl⟩ | he
      · exact ⟨MJ.tpaths_sub_paths d.digest T "" q hq, by simp⟩
      · obtain ⟨i1, i2⟩ := h1 e he
        exact ⟨MJ.paths_revealTop d.digest T "" _ i1, by simp [i2]⟩
    · have hlen := MJ.tpaths_length d.digest T ""
      have hcnt : T.topMarks.count d.digest ≤ 1 :=
        List.nodup_iff_count.mp ((MJ.topMarks_sublist_all T).nodup nd) _
      simp only [List.map_append, List.map_map, h2]
      by_cases hf : d.digest ∈ T.topMarks
      · have hpos : 0 < T.topMarks.count d.digest := List.count_pos_iff.mpr hf
        have h1' : (T.tpaths d.digest "").length = 1 := by omega
        obtain ⟨q, hq⟩ := List.length_eq_one_iff.mp h1'
        simp [hf, hq]
      · have h0 : (T.tpaths d.digest "").length = 0 := by
          rw [hlen]; exact List.count_eq_zero_of_not_mem hf
        have : T.tpaths d.digest "" = [] := List.length_eq_zero_iff.mp h0
        simp [hf, this]

/-- every mark is either placed in the round or still there -/
theorem specRound_marksKept : (L : List Disc) → (T : MJ) →
    ∀ h ∈ T.allMarks, h ∈ (specRound T L).2.2.1 ∨ h ∈ (specRound T L).1.allMarks
  | [], _, h, hh => by simpa [specRound] using hh
  | d :: r, T, h, hh => by
    simp only [specRound]
    by_cases hf : d.digest ∈ T.topMarks
    · simp only [hf, if_true, List.mem_cons]
      rcases MJ.mem_allMarks_revealTop d.digest h T hh with h1 | h1
      · exact .inl (.inl h1)
      · rcases specRound_marksKept r _ h h1 with h2 | h2
        · exact .inl (.inr h2)
        · exact .inr h2
    · simp only [hf, if_false]
      rw [MJ.revealTop_id _ T hf]
      exact specRound_marksKept r T h hh

/-- no digest is placed twice in a round -/
theorem specRound_placedNd : (L : List Disc) → (T : MJ) → Distinct L → (specRound T L).2.2.1.Nodup
  | [], _, _ => by simp [specRound]
  | d :: r, T, hd => by
    simp only [Distinct, List.pairwise_cons] at hd
    obtain ⟨_, h2, _, _, _⟩ := specRound_sub r (T.revealTop d.digest)
    have ih := specRound_placedNd r (T.revealTop d.digest) hd.2
    simp only [specRound]
    by_cases hf : d.digest ∈ T.topMarks
    · simp only [hf, if_true, List.nodup_cons]
      refine ⟨?_, ih⟩
      intro hp
      obtain ⟨e, he, hge⟩ := h2 _ hp
      exact hd.1 e he hge.symm
    · simpa [hf] using ih

/-- what the rounds arrive at -/
structure RoundsResult (T : MJ) (L : List Disc) (Tf : MJ) (placed : List String)
    (ps : List PathEntry) : Prop where
  inv : TreeInv Tf
  proj : ∀ S : String → Bool, Tf.project S = T.project (fun h => placed.contains h || S h)
  fromL : ∀ g ∈ placed, ∃ d ∈ L, d.digest = g
  gone : ∀ g ∈ placed, g ∉ Tf.allMarks
  marksSub : Tf.allMarks.Sublist T.allMarks
  done : ∀ d ∈ L, d.digest ∈ placed ∨ d.digest ∉ Tf.topMarks
  /-- every reported entry is the pointer of the node with its digest in the original tree -/
  pathsIn : ∀ e ∈ ps, (e.1, e.2.digest) ∈ T.paths "" ∧ e.2 ∈ L
  /-- one entry per placed digest, in placing order -/
  pathsDig : ps.map (·.2.digest) = placed
  pathsTf : ∀ e ∈ Tf.paths "", e ∈ T.paths ""
  marksKept : ∀ h ∈ T.allMarks, h ∈ placed ∨ h ∈ Tf.allMarks
  placedNd : placed.Nodup

theorem rounds_spec : (n : Nat) → (T : MJ) → (L : List Disc) → (acc : List PathEntry) → L.length ≤ n →
    TreeInv T → (∀ d ∈ L, DOk T d) → Distinct L →
    ∃ Tf placed ps, rounds n (T.hview noneShown) L acc = .ok (Tf.hview noneShown, acc ++ ps) ∧
      RoundsResult T L Tf placed ps
  | 0, T, L, acc, hlen, inv, _, _ => by
    have : L = [] := List.length_eq_zero_iff.mp (by omega)
    subst this
    exact ⟨T, [], [], by simp [rounds], ⟨inv, by simp, by simp, by simp, List.Sublist.refl _, by simp,
      by simp, rfl, fun e he => he, fun h hh => .inr hh, List.nodup_nil⟩⟩
  | n+1, T, L, acc, hlen, inv, hok, hdist => by
    by_cases hempty : L = []
    · subst hempty
      exact ⟨T, [], [], by simp [rounds], ⟨inv, by simp, by simp, by simp, List.Sublist.refl _, by simp,
      by simp, rfl, fun e he => he, fun h hh => .inr hh, List.nodup_nil⟩⟩
    · have hne : L.isEmpty = false := by
        cases L with
        | nil => exact absurd rfl hempty
        | cons a r => rfl
      have hround := roundOnce_spec L T inv hok hdist
      obtain ⟨hs1, hs2, hs3, hs4, hs5⟩ := specRound_sub L T
      by_cases hprog : (specRound T L).2.1.length = L.length
      · -- a round that places nothing: stop
        obtain ⟨hT, hnone⟩ := specRound_noprogress L T hprog
        obtain ⟨hp1, hp2, _⟩ := specRound_paths L T inv.ndm
        have hnil : (specRound T L).2.2.1 = [] := List.length_eq_zero_iff.mp (by omega)
        refine ⟨T, [], (specRound T L).2.2.2, ?_, ⟨inv, by simp, by simp, by simp, List.Sublist.refl _, ?_,
          hp1, by rw [hp2, hnil], fun e he => he, fun h hh => .inr hh, List.nodup_nil⟩⟩
        · simp [rounds, hne, hround, hprog, hT]
        · intro d hd; right; exact hnone d hd
      · have hlt : (specRound T L).2.1.length ≤ n := by
          have := hs5.length_le
          omega
        have inv1 := specRound_treeInv L T inv
        have hok1 : ∀ u ∈ (specRound T L).2.1, DOk (specRound T L).1 u := fun u hu =>
          specRound_dok L T u (hok u (hs1 u hu)) (specRound_unplaced_not_placed L T hdist u hu)
        obtain ⟨Tf, placed2, ps2, hr, res⟩ := rounds_spec n (specRound T L).1 (specRound T L).2.1
          (acc ++ (specRound T L).2.2.2) hlt inv1 hok1 (specRound_distinct L T hdist)
        obtain ⟨hp1, hp2, hp3⟩ := specRound_paths L T inv.ndm
        refine ⟨Tf, (specRound T L).2.2.1 ++ placed2, (specRound T L).2.2.2 ++ ps2, ?_, ⟨res.inv, ?_, ?_, ?_, ?_, ?_,
          ?_, by rw [List.map_append, hp2, res.pathsDig], fun e he => hp3 e (res.pathsTf e he), ?_, ?_⟩⟩
        · simp [rounds, hne, hround, hprog, hr, List.append_assoc]
        · intro S
          rw [res.proj S, specRound_project L T inv]
          congr 1
          funext h
          simp [List.contains_append, Bool.or_assoc]
        · intro g hg
          simp only [List.mem_append] at hg
          rcases hg with hg | hg
          · exact hs2 g hg
          · obtain ⟨d, hd, hdg⟩ := res.fromL g hg
            exact ⟨d, hs1 d hd, hdg⟩
        · intro g hg
          simp only [List.mem_append] at hg
          rcases hg with hg | hg
          · exact fun hh => specRound_placed_gone L T inv g hg (res.marksSub.subset hh)
          · exact res.gone g hg
        · exact res.marksSub.trans (specRound_allMarks_sub L T)
        · intro d hd
          rcases hs3 d hd with h | h
          · rcases res.done d h with h1 | h1
            · left; simp [h1]
            · right; exact h1
          · left; simp [h]
        · intro e he
          simp only [List.mem_append] at he
          rcases he with he | he
          · exact hp1 e he
          · obtain ⟨i1, i2⟩ := res.pathsIn e he
            exact ⟨hp3 _ i1, hs1 _ i2⟩
        · intro h hh
          rcases specRound_marksKept L T h hh with h1 | h1
          · exact .inl (by simp [h1])
          · rcases res.marksKept h h1 with h2 | h2
            · exact .inl (by simp [h2])
            · exact .inr h2
        · rw [List.nodup_append]
          refine ⟨specRound_placedNd L T hdist, res.placedNd, ?_⟩
          intro a ha b hb e
          subst e
          obtain ⟨u, hu, hug⟩ := res.fromL a hb
          exact specRound_unplaced_not_placed L T hdist u hu (hug ▸ ha)

/-- **T-restore (claims).** For a conformant tree `T` and decoded disclosures `L` with pairwise
distinct digests, each acceptable for `T`: the rounds end, and stripping what they produce gives
the original claims with exactly the marked nodes whose digest is in `L` — and whose enclosing
marked nodes' digests are in `L` — present. -/
theorem rounds_project (T : MJ) (L : List Disc) (inv : TreeInv T) (hok : ∀ d ∈ L, DOk T d)
    (hdist : Distinct L) :
    ∃ c ps, rounds L.length (T.hview noneShown) L [] = .ok (c, ps) ∧
      removeAll c = T.project (fun h => L.any (fun d => d.digest = h)) := by
  obtain ⟨Tf, placed, ps, hr, res⟩ := rounds_spec L.length T L [] (Nat.le_refl _) inv hok hdist
  refine ⟨_, _, by simpa using hr, ?_⟩
  rw [MJ.removeAll_hview noneShown Tf res.inv.wf]
  let Q : String → Bool := fun h => L.any (fun d => d.digest = h)
  have hq : ∀ g ∈ Tf.topMarks, Q g = false := by
    intro g hg
    cases hQ : Q g with
    | false => rfl
    | true =>
      exfalso
      simp only [Q, List.any_eq_true, decide_eq_true_eq] at hQ
      obtain ⟨d, hd, hdg⟩ := hQ
      rcases res.done d hd with h | h
      · exact res.gone _ h (MJ.topMarks_sub_all Tf _ (hdg ▸ hg))
      · exact h (hdg ▸ hg)
  rw [← MJ.project_not_top Q Tf hq, res.proj Q]
  apply MJ.project_congr
  intro g _
  simp only [Q]
  cases hc : placed.contains g with
  | false => simp
  | true =>
    simp only [Bool.true_or]
    have hm : g ∈ placed := by simpa using hc
    obtain ⟨d, hd, hdg⟩ := res.fromL g hm
    symm
    simp only [List.any_eq_true, decide_eq_true_eq]
    exact ⟨d, hd, hdg⟩

end Impl

namespace Impl

/-- what is known of the reported path list -/
structure PathsOK (T : MJ) (L : List Disc) (ps : List PathEntry) : Prop where
  /-- every entry pairs a disclosure of `L` with the pointer of the node it belongs to -/
  sound : ∀ e ∈ ps, (e.1, e.2.digest) ∈ T.paths "" ∧ e.2 ∈ L
  /-- no node is reported twice -/
  nodup : (ps.map (·.2.digest)).Nodup
  /-- when every marked node has its disclosure in `L`, every marked node is reported: the list
  is, up to order, exactly (pointer, digest) of all marked nodes -/
  all : (∀ g ∈ T.allMarks, ∃ d ∈ L, d.digest = g) →
    (ps.map (fun e => (e.1, e.2.digest))).Perm (T.paths "")

theorem nodup_of_map_nodup {α β : Type} (f : α → β) : (l : List α) → (l.map f).Nodup → l.Nodup
  | [], _ => List.nodup_nil
  | a :: r, h => by
    simp only [List.map_cons, List.nodup_cons, List.mem_map, not_exists, not_and] at h
    exact List.nodup_cons.mpr ⟨fun ha => h.1 a ha rfl, nodup_of_map_nodup f r h.2⟩

theorem inj_of_nodup_map {α β : Type} (f : α → β) : (l : List α) → (l.map f).Nodup →
    ∀ a ∈ l, ∀ b ∈ l, f a = f b → a = b
  | [], _, a, ha, _, _, _ => by simp at ha
  | x :: r, hn, a, ha, b, hb, e => by
    simp only [List.map_cons, List.nodup_cons, List.mem_map, not_exists, not_and] at hn
    simp only [List.mem_cons] at ha hb
    rcases ha with rfl | ha <;> rcases hb with rfl | hb
    · rfl
    · exact absurd e.symm (hn.1 b hb)
    · exact absurd e (hn.1 a ha)
    · exact inj_of_nodup_map f r hn.2 a ha b hb e

/-- **T-restore (claims and paths).** -/
theorem rounds_paths (T : MJ) (L : List Disc) (inv : TreeInv T) (hok : ∀ d ∈ L, DOk T d)
    (hdist : Distinct L) :
    ∃ c ps, rounds L.length (T.hview noneShown) L [] = .ok (c, ps) ∧ PathsOK T L ps := by
  obtain ⟨Tf, placed, ps, hr, res⟩ := rounds_spec L.length T L [] (Nat.le_refl _) inv hok hdist
  refine ⟨_, _, by simpa using hr, ⟨res.pathsIn, by rw [res.pathsDig]; exact res.placedNd, ?_⟩⟩
  intro hall
  -- nothing stays hidden
  have hTf : Tf.allMarks = [] := by
    apply MJ.top_of_mark
    apply List.eq_nil_iff_forall_not_mem.mpr
    intro g hg
    have hgall := MJ.topMarks_sub_all Tf g hg
    obtain ⟨d, hd, hdg⟩ := hall g (res.marksSub.subset hgall)
    rcases res.done d hd with h | h
    · exact res.gone _ h (hdg ▸ hgall)
    · exact h (hdg ▸ hg)
  have hplaced : ∀ g ∈ T.allMarks, g ∈ placed := by
    intro g hg
    rcases res.marksKept g hg with h | h
    · exact h
    · simp [hTf] at h
  -- both lists are duplicate free and have the same members
  have hnd2 : (T.paths "").Nodup := nodup_of_map_nodup (·.2) _ (by rw [MJ.paths_snd]; exact inv.ndm)
  have hE : ((ps.map (fun e => (e.1, e.2.digest))).map (·.2)) = placed := by
    rw [List.map_map]; exact res.pathsDig
  have hnd1 : (ps.map (fun e => (e.1, e.2.digest))).Nodup :=
    nodup_of_map_nodup (·.2) _ (by rw [hE]; exact res.placedNd)
  rw [List.perm_ext_iff_of_nodup hnd1 hnd2]
  intro a
  constructor
  · intro ha
    obtain ⟨e, he, rfl⟩ := List.mem_map.mp ha
    exact (res.pathsIn e he).1
  · intro ha
    have hg : a.2 ∈ placed := hplaced _ (by rw [← MJ.paths_snd T ""]; exact List.mem_map_of_mem ha)
    rw [← hE] at hg
    obtain ⟨b, hb, hba⟩ := List.mem_map.mp hg
    obtain ⟨e, he, rfl⟩ := List.mem_map.mp hb
    have hin := (res.pathsIn e he).1
    -- same digest, both pointers of `T`: the same entry
    have hinj : ∀ x ∈ T.paths "", ∀ y ∈ T.paths "", x.2 = y.2 → x = y :=
      inj_of_nodup_map (·.2) (T.paths "") (by rw [MJ.paths_snd]; exact inv.ndm)
    have := hinj _ hin a ha hba
    rw [← this]
    exact hb

end Impl
