import SdJwt.Impl.Restore
import SdJwt.Lemmas.View
import SdJwt.Lemmas.Strip
/-!
T-restore, the step: one walk of `restore_disclosure` over the payload of a marked tree `T` with a
disclosure of digest `g` yields the payload of `T.revealTop g`, says whether `g` was a visible
mark, and reports its JSON pointer.
-/
open Assoc Spec Path
namespace Impl

/-! ### auxiliary notions on members -/

theorem mem_topMarks_iff (g : String) : (ms : MMems) → (g ∈ ms.topMarks ↔ g ∈ ms.marks ∨ g ∈ ms.belowMarks)
  | .nil => by simp [MMems.topMarks, MMems.marks, MMems.belowMarks]
  | .clear k x r => by
    simp only [MMems.topMarks, MMems.marks, MMems.belowMarks, List.mem_append, mem_topMarks_iff g r]
    constructor
    · rintro (h | h | h) <;> simp [h]
    · rintro (h | h | h) <;> simp [h]
  | .marked k dg x r => by
    simp only [MMems.topMarks, MMems.marks, MMems.belowMarks, List.mem_cons, mem_topMarks_iff g r]
    constructor
    · rintro (h | h | h) <;> simp [h]
    · rintro ((h | h) | h) <;> simp [h]

theorem revealTop_eq_below (g : String) : (ms : MMems) → g ∉ ms.marks → ms.revealTop g = ms.revealBelow g
  | .nil, _ => rfl
  | .clear k x r, h => by
    simp only [MMems.marks] at h
    simp [MMems.revealTop, MMems.revealBelow, revealTop_eq_below g r h]
  | .marked k dg x r, h => by
    simp only [MMems.marks, List.mem_cons, not_or] at h
    have : dg ≠ g := fun e => h.1 e.symm
    simp [MMems.revealTop, MMems.revealBelow, this, revealTop_eq_below g r h.2]

theorem revealBelow_id (g : String) : (ms : MMems) → g ∉ ms.belowMarks → ms.revealBelow g = ms
  | .nil, _ => rfl
  | .clear k x r, h => by
    simp only [MMems.belowMarks, List.mem_append, not_or] at h
    simp [MMems.revealBelow, MJ.revealTop_id g x h.1, revealBelow_id g r h.2]
  | .marked k dg x r, h => by
    simp only [MMems.belowMarks] at h
    simp [MMems.revealBelow, revealBelow_id g r h]

theorem findOwn_some_of_mem (g : String) : (ms : MMems) → g ∈ ms.marks → ∃ k x, ms.findOwn g = some (k, x)
  | .nil, h => by simp [MMems.marks] at h
  | .clear k x r, h => by
    simp only [MMems.marks] at h
    simpa [MMems.findOwn] using findOwn_some_of_mem g r h
  | .marked k dg x r, h => by
    simp only [MMems.marks, List.mem_cons] at h
    by_cases hd : dg = g
    · exact ⟨k, x, by simp [MMems.findOwn, hd]⟩
    · rcases h with h | h
      · exact absurd h.symm hd
      · simpa [MMems.findOwn, hd] using findOwn_some_of_mem g r h

theorem findOwn_topDiscs (g : String) : (ms : MMems) → ∀ k x, ms.findOwn g = some (k, x) →
    (⟨g, some k, x.payload⟩ : SDisc) ∈ ms.topDiscs
  | .nil, _, _, h => by simp [MMems.findOwn] at h
  | .clear k' x' r, k, x, h => by
    simp only [MMems.findOwn] at h
    simp only [MMems.topDiscs, List.mem_append]
    right; exact findOwn_topDiscs g r k x h
  | .marked k' dg x' r, k, x, h => by
    simp only [MMems.findOwn] at h
    simp only [MMems.topDiscs, List.mem_cons]
    split at h
    · rename_i hd; simp at h; obtain ⟨rfl, rfl⟩ := h; left; rw [hd]
    · right; exact findOwn_topDiscs g r k x h

theorem findOwn_keysGt {g k0 : String} : (ms : MMems) → ms.keysGt k0 → ∀ k x, ms.findOwn g = some (k, x) → k0 < k
  | .nil, _, _, _, h => by simp [MMems.findOwn] at h
  | .clear k' x' r, hk, k, x, h => findOwn_keysGt r hk.2 k x (by simpa [MMems.findOwn] using h)
  | .marked k' g' x' r, hk, k, x, h => by
      simp only [MMems.findOwn] at h
      split at h
      · simp at h; exact h.1 ▸ hk.1
      · exact findOwn_keysGt r hk.2 k x h

/-- the name of a hidden member is not among the visible members -/
theorem aget_hidden_key (g : String) : (ms : MMems) → ms.WF → ∀ k x, ms.findOwn g = some (k, x) →
    aget k (ms.hview noneShown) = none ∧ k ≠ "_sd"
  | .nil, _, _, _, h => by simp [MMems.findOwn] at h
  | .clear k' x' r, wf, k, x, h => by
    simp only [MMems.WF] at wf
    simp only [MMems.findOwn] at h
    have hlt : k' < k := findOwn_keysGt r wf.2.2.2.1 k x h
    have hne : k ≠ k' := fun e => slt_irrefl k' (e ▸ hlt)
    have ih := aget_hidden_key g r wf.2.2.2.2 k x h
    exact ⟨by simp [MMems.hview, aget, hne, ih.1], ih.2⟩
  | .marked k' dg x' r, wf, k, x, h => by
    simp only [MMems.WF] at wf
    simp only [MMems.findOwn] at h
    split at h
    · simp at h
      obtain ⟨rfl, rfl⟩ := h
      exact ⟨by simpa [MMems.hview] using aget_hview_of_keysGt noneShown k' r wf.2.2.2.1, wf.1⟩
    · simpa [MMems.hview] using aget_hidden_key g r wf.2.2.2.2 k x h

/-- Lemma A: revealing this object's own member = sorted insertion of that member -/
theorem hview_reveal_own (g : String) : (ms : MMems) → ms.WF → ms.marks.Nodup → g ∉ ms.belowMarks →
    ∀ k x, ms.findOwn g = some (k, x) →
    (ms.revealTop g).hview noneShown = ains k (x.hview noneShown) (ms.hview noneShown)
  | .nil, _, _, _, _, _, h => by simp [MMems.findOwn] at h
  | .clear k' x' r, wf, nd, hb, k, x, hf => by
    simp only [MMems.WF] at wf
    simp only [MMems.marks] at nd
    simp only [MMems.belowMarks, List.mem_append, not_or] at hb
    simp only [MMems.findOwn] at hf
    have ih := hview_reveal_own g r wf.2.2.2.2 nd hb.2 k x hf
    have hlt : k' < k := findOwn_keysGt r wf.2.2.2.1 k x hf
    simp only [MMems.revealTop, MMems.hview, ih, MJ.revealTop_id g x' hb.1]
    rw [ains_cons_lt _ _ _ hlt]
  | .marked k' dg x' r, wf, nd, hb, k, x, hf => by
    simp only [MMems.WF] at wf
    simp only [MMems.marks, List.nodup_cons] at nd
    simp only [MMems.belowMarks] at hb
    simp only [MMems.findOwn] at hf
    by_cases hg : dg = g
    · subst hg
      simp at hf
      obtain ⟨rfl, rfl⟩ := hf
      have hr : dg ∉ r.topMarks := by
        rw [mem_topMarks_iff]; exact fun h => h.elim nd.1 hb
      simp only [MMems.revealTop, if_true, MMems.hview, Bool.false_eq_true, if_false, MMems.revealTop_id dg r hr]
      exact (ains_of_allGt (keysGt_hview noneShown k' r wf.2.2.2.1)).symm
    · simp only [hg, if_false] at hf
      have ih := hview_reveal_own g r wf.2.2.2.2 nd.2 hb k x hf
      simp only [MMems.revealTop, hg, if_false, MMems.hview, Bool.false_eq_true, ih]

/-! ### generic facts about the walk over members -/

theorem restoreL_strs (d : Disc) (p : String) : (ds : List String) → (i : Nat) →
    restoreOne.restoreL d p i (ds.map .str) = .ok (ds.map .str, false, [])
  | [], _ => by simp [restoreOne.restoreL]
  | s :: r, i => by simp [restoreOne.restoreL, elemHit, restoreOne, restoreL_strs d p r (i+1)]

theorem restoreOne_sdArr (d : Disc) (p : String) (ds : List String) :
    restoreOne d p (.arr (ds.map .str)) = .ok (.arr (ds.map .str), false, []) := by
  simp [restoreOne, restoreL_strs]

/-- inserting a member on which the walk does nothing does not disturb the walk over the others -/
theorem restoreM_ains (d : Disc) (p k : String) (v : J)
    (hv : restoreOne d (fmtPath p k) v = .ok (v, false, [])) :
    (l l' : List (String × J)) → (f : Bool) → (ps : List String) → aget k l = none →
    restoreOne.restoreM d p l = .ok (l', f, ps) →
    restoreOne.restoreM d p (ains k v l) = .ok (ains k v l', f, ps)
  | [], l', f, ps, _, h => by
    simp [restoreOne.restoreM] at h
    obtain ⟨rfl, rfl, rfl⟩ := h
    simp [ains, restoreOne.restoreM, hv]
  | (k', v') :: r, l', f, ps, hfresh, h => by
    simp only [aget] at hfresh
    have hkk : k ≠ k' := by intro e; simp [e] at hfresh
    have hfr : aget k r = none := by simpa [hkk] using hfresh
    simp only [restoreOne.restoreM] at h
    cases h1 : restoreOne d (fmtPath p k') v' with
    | panic => simp [h1] at h
    | err e => simp [h1] at h
    | ok a =>
      obtain ⟨v1, f1, p1⟩ := a
      cases h2 : restoreOne.restoreM d p r with
      | panic => simp [h1, h2] at h
      | err e => simp [h1, h2] at h
      | ok b =>
        obtain ⟨r1, f2, p2⟩ := b
        simp [h1, h2] at h
        obtain ⟨rfl, rfl, rfl⟩ := h
        have ih := restoreM_ains d p k v hv r r1 f2 p2 hfr h2
        by_cases hlt : k < k'
        · simp [ains, hlt, restoreOne.restoreM, hv, h1, h2]
        · simp [ains, hlt, hkk, restoreOne.restoreM, h1, ih]

/-! ### paths -/

mutual
theorem MJ.tpaths_nil (g p : String) : (T : MJ) → g ∉ T.topMarks → T.tpaths g p = []
  | .leaf _, _ => rfl
  | .arr xs, h => by
    simp only [MJ.topMarks] at h
    simp [MJ.tpaths, MElems.tpaths_nil g p 0 xs h]
  | .obj ms sd, h => by
    simp only [MJ.topMarks, mem_topMarks_iff, not_or] at h
    simp [MJ.tpaths, MMems.tpaths_nil g p ms h.2, ownPaths_nil g p ms h.1]
theorem MElems.tpaths_nil (g p : String) (i : Nat) : (xs : MElems) → g ∉ xs.topMarks → xs.tpaths g p i = []
  | .nil, _ => rfl
  | .clear x r, h => by
    simp only [MElems.topMarks, List.mem_append, not_or] at h
    simp [MElems.tpaths, MJ.tpaths_nil g _ x h.1, MElems.tpaths_nil g p (i+1) r h.2]
  | .marked dg x r, h => by
    simp only [MElems.topMarks, List.mem_cons, not_or] at h
    have : dg ≠ g := fun e => h.1 e.symm
    simp [MElems.tpaths, this, MElems.tpaths_nil g p (i+1) r h.2]
  | .decoy dg r, h => by
    simp only [MElems.topMarks] at h
    simp [MElems.tpaths, MElems.tpaths_nil g p (i+1) r h]
theorem MMems.tpaths_nil (g p : String) : (ms : MMems) → g ∉ ms.belowMarks → ms.tpaths g p = []
  | .nil, _ => rfl
  | .clear k x r, h => by
    simp only [MMems.belowMarks, List.mem_append, not_or] at h
    simp [MMems.tpaths, MJ.tpaths_nil g _ x h.1, MMems.tpaths_nil g p r h.2]
  | .marked k dg x r, h => by
    simp only [MMems.belowMarks] at h
    simp [MMems.tpaths, MMems.tpaths_nil g p r h]
theorem ownPaths_nil (g p : String) : (ms : MMems) → g ∉ ms.marks → ms.ownPaths g p = []
  | .nil, _ => rfl
  | .clear k x r, h => by
    simp only [MMems.marks] at h
    simp [MMems.ownPaths, ownPaths_nil g p r h]
  | .marked k dg x r, h => by
    simp only [MMems.marks, List.mem_cons, not_or] at h
    have : dg ≠ g := fun e => h.1 e.symm
    simp [MMems.ownPaths, this, ownPaths_nil g p r h.2]
end

theorem ownPaths_own (g p : String) : (ms : MMems) → ms.marks.Nodup → ∀ k x, ms.findOwn g = some (k, x) →
    ms.ownPaths g p = [fmtPath p k]
  | .nil, _, _, _, h => by simp [MMems.findOwn] at h
  | .clear k' x' r, nd, k, x, h => by
    simp only [MMems.marks] at nd
    simp only [MMems.findOwn] at h
    simp [MMems.ownPaths, ownPaths_own g p r nd k x h]
  | .marked k' dg x' r, nd, k, x, h => by
    simp only [MMems.marks, List.nodup_cons] at nd
    simp only [MMems.findOwn] at h
    by_cases hd : dg = g
    · subst hd
      simp at h
      obtain ⟨rfl, rfl⟩ := h
      simp [MMems.ownPaths, ownPaths_nil dg p r nd.1]
    · simp only [hd, if_false] at h
      simp [MMems.ownPaths, hd, ownPaths_own g p r nd.2 k x h]

theorem belowMarks_sub_vdigests : (ms : MMems) → ms.WF → ∀ g ∈ ms.belowMarks, g ∈ ms.vdigests
  | .nil, _, g, h => by simp [MMems.belowMarks] at h
  | .clear k x r, wf, g, h => by
    simp only [MMems.WF] at wf
    simp only [MMems.belowMarks, List.mem_append] at h
    simp only [MMems.vdigests, List.mem_append]
    rcases h with h | h
    · left; exact MJ.topMarks_sub_vdigests x wf.2.2.1 g h
    · right; exact belowMarks_sub_vdigests r wf.2.2.2.2 g h
  | .marked k dg x r, wf, g, h => by
    simp only [MMems.WF] at wf
    simp only [MMems.belowMarks] at h
    simp only [MMems.vdigests]
    exact belowMarks_sub_vdigests r wf.2.2.2.2 g h

/-- the disclosure agrees with the tree on the node(s) marked with its digest -/
def Match (d : Disc) (td : List SDisc) : Prop :=
  ∀ e ∈ td, e.digest = d.digest → d.key = e.key ∧ d.value = e.value

theorem Match.mono {d : Disc} {a b : List SDisc} (h : Match d b) (hs : ∀ e ∈ a, e ∈ b) : Match d a :=
  fun e he => h e (hs e he)

theorem sdContains_strs (ds : List String) (g : String) :
    sdContains (.arr (ds.map .str)) g = .ok (decide (g ∈ ds)) := by
  simp only [sdContains]
  congr 1
  induction ds with
  | nil => simp
  | cons a r ih =>
    simp only [List.map_cons, List.any_cons, ih, List.mem_cons]
    by_cases h : a = g
    · simp [h]
    · have : ¬ g = a := fun e => h e.symm
      simp [h, this]

/-! ### the walk on views -/

theorem elemHit_hview (d : Disc) (S : String → Bool) : (T : MJ) → T.WF → elemHit d (T.hview S) = .ok false
  | .leaf j, wf => by cases j <;> simp_all [MJ.hview, elemHit, MJ.WF, J.scalar]
  | .arr xs, _ => by simp [MJ.hview, elemHit]
  | .obj ms sd, wf => by
    simp only [MJ.WF] at wf
    simp [MJ.hview, elemHit, aget_dots_withSd, aget_dots_hview S ms wf.1]

theorem elemHit_placeholder (d : Disc) (dg : String) :
    elemHit d (placeholder dg) =
      if dg = d.digest then (if d.key.isSome then .err .rejected else .ok true) else .ok false := by
  simp [elemHit, placeholder, aget]

theorem restoreOne_placeholder (d : Disc) (p dg : String) :
    restoreOne d p (placeholder dg) = .ok (placeholder dg, false, []) := by
  simp [restoreOne, placeholder, ownSd, aget, restoreOne.restoreM]

mutual
theorem MJ.step (d : Disc) : (T : MJ) → (p : String) → T.WF → T.vdigests.Nodup → d.digest ∉ T.stale →
    Match d T.topDiscs →
    restoreOne d p (T.hview noneShown) =
      .ok ((T.revealTop d.digest).hview noneShown, decide (d.digest ∈ T.topMarks), T.tpaths d.digest p)
  | .leaf j, p, wf, _, _, _ => by
    cases j <;> simp_all [MJ.hview, restoreOne, MJ.WF, J.scalar, MJ.revealTop, MJ.topMarks, MJ.tpaths]
  | .arr xs, p, wf, nd, hs, hm => by
    simp only [MJ.WF] at wf
    simp only [MJ.vdigests] at nd
    simp only [MJ.stale] at hs
    simp only [MJ.topDiscs] at hm
    have := MElems.step d xs p 0 wf nd hs hm
    simp [MJ.hview, restoreOne, this, MJ.revealTop, MJ.topMarks, MJ.tpaths]
    congr
  | .obj ms sd, p, wf, nd, hs, hm => by
    simp only [MJ.WF] at wf
    obtain ⟨wfm, hsub, hmnd⟩ := wf
    simp only [MJ.vdigests, List.nodup_append] at nd
    obtain ⟨ndsd, ndm, hdisj⟩ := nd
    simp only [MJ.stale, List.mem_append, not_or] at hs
    obtain ⟨hs1, hs2⟩ := hs
    simp only [MJ.topDiscs] at hm
    have hM := MMems.step d ms p wfm ndm hs2 hm
    cases sd with
    | none =>
      have hnm : d.digest ∉ ms.marks := fun h => by simpa using hsub _ h
      simp only [MJ.hview, withSd, restoreOne, ownSd, aget_sd_hview noneShown ms wfm, hM,
        MJ.revealTop, revealTop_eq_below _ ms hnm, MJ.topMarks, MJ.tpaths, ownPaths_nil _ p ms hnm,
        List.nil_append]
      have : (d.digest ∈ ms.topMarks) ↔ (d.digest ∈ ms.belowMarks) := by
        rw [mem_topMarks_iff]; simp [hnm]
      simp [this]
    | some ds =>
      simp only [Option.getD_some] at hsub ndsd hdisj hs1
      have hsdv := restoreOne_sdArr d (fmtPath p "_sd") ds
      have hMs := restoreM_ains d p "_sd" (.arr (ds.map .str)) hsdv _ _ _ _
        (aget_sd_hview noneShown ms wfm) hM
      by_cases hg : d.digest ∈ ds
      · -- the disclosure belongs into this object
        have hmark : d.digest ∈ ms.marks := by
          apply Classical.byContradiction
          intro hc
          apply hs1
          simp only [List.mem_filter, Bool.not_eq_true', List.contains_eq_mem, decide_eq_false_iff_not]
          exact ⟨hg, hc⟩
        obtain ⟨k, x, hf⟩ := findOwn_some_of_mem _ ms hmark
        obtain ⟨hk, hv⟩ := hm _ (findOwn_topDiscs _ ms k x hf) rfl
        simp only at hk hv
        have hnv : d.digest ∉ ms.vdigests := fun h => hdisj _ hg _ h rfl
        have hnb : d.digest ∉ ms.belowMarks := fun h => hnv (belowMarks_sub_vdigests ms wfm _ h)
        obtain ⟨hak, hksd⟩ := aget_hidden_key _ ms wfm k x hf
        have hown : ownSd d (ains "_sd" (.arr (ds.map .str)) (ms.hview noneShown)) = .ok (some k) := by
          simp [ownSd, aget_ains_self, sdContains_strs, hg, hk, aget_ains_ne _ hksd, hak]
        rw [revealBelow_id _ ms hnb] at hMs
        simp only [MJ.hview, withSd, restoreOne, hown, hMs, MJ.revealTop, MJ.topMarks, MJ.tpaths,
          hview_reveal_own _ ms wfm hmnd hnb k x hf, ownPaths_own _ p ms hmnd k x hf,
          MMems.tpaths_nil _ p ms hnb]
        have hin : d.digest ∈ ms.topMarks := by rw [mem_topMarks_iff]; exact Or.inl hmark
        simp only [hin, decide_true, hv, MJ.payload]
        rw [ains_comm _ _ _ _ _ (sorted_hview noneShown ms wfm) hksd]
        rfl
      · have hnm : d.digest ∉ ms.marks := fun h => hg (hsub _ h)
        have hown : ownSd d (ains "_sd" (.arr (ds.map .str)) (ms.hview noneShown)) = .ok none := by
          simp [ownSd, aget_ains_self, sdContains_strs, hg]
        simp only [MJ.hview, withSd, restoreOne, hown, hMs, MJ.revealTop, revealTop_eq_below _ ms hnm,
          MJ.topMarks, MJ.tpaths, ownPaths_nil _ p ms hnm, List.nil_append]
        have : (d.digest ∈ ms.topMarks) ↔ (d.digest ∈ ms.belowMarks) := by
          rw [mem_topMarks_iff]; simp [hnm]
        simp [this]
theorem MElems.step (d : Disc) : (xs : MElems) → (p : String) → (i : Nat) → xs.WF → xs.vdigests.Nodup →
    d.digest ∉ xs.stale → Match d xs.topDiscs →
    restoreOne.restoreL d p i (xs.hview noneShown) =
      .ok ((xs.revealTop d.digest).hview noneShown, decide (d.digest ∈ xs.topMarks), xs.tpaths d.digest p i)
  | .nil, _, _, _, _, _, _ => by
    simp [MElems.hview, restoreOne.restoreL, MElems.revealTop, MElems.topMarks, MElems.tpaths]
  | .clear x r, p, i, wf, nd, hs, hm => by
    simp only [MElems.WF] at wf
    simp only [MElems.vdigests, List.nodup_append] at nd
    simp only [MElems.stale, List.mem_append, not_or] at hs
    simp only [MElems.topDiscs] at hm
    have h1 := MJ.step d x (fmtPath p (toString i)) wf.1 nd.1 hs.1 (hm.mono (by simp +contextual))
    have h2 := MElems.step d r p (i+1) wf.2 nd.2.1 hs.2 (hm.mono (by simp +contextual))
    simp only [MElems.hview, restoreOne.restoreL, elemHit_hview d noneShown x wf.1, h1, h2, MElems.revealTop,
      MElems.topMarks, MElems.tpaths]
    simp
  | .marked dg x r, p, i, wf, nd, hs, hm => by
    simp only [MElems.WF] at wf
    simp only [MElems.vdigests, List.nodup_cons] at nd
    simp only [MElems.stale] at hs
    simp only [MElems.topDiscs] at hm
    have h2 := MElems.step d r p (i+1) wf.2 nd.2 hs (hm.mono (by simp +contextual))
    by_cases hg : dg = d.digest
    · obtain ⟨hk, hv⟩ := hm ⟨dg, none, x.payload⟩ (by simp) hg
      simp only at hk hv
      have hnr : d.digest ∉ r.topMarks := fun h => nd.1 (hg ▸ MElems.topMarks_sub_vdigests r wf.2 _ h)
      rw [MElems.revealTop_id _ r hnr, MElems.tpaths_nil _ p (i+1) r hnr] at h2
      have hdec : decide (d.digest ∈ r.topMarks) = false := by simp [hnr]
      rw [hdec] at h2
      simp only [MElems.hview, Bool.false_eq_true, if_false, restoreOne.restoreL, elemHit_placeholder, hg,
        if_true, hk, Option.isSome_none, h2, MElems.revealTop, MElems.topMarks, MElems.tpaths, hv, MJ.payload,
        MElems.revealTop_id _ r hnr, MElems.tpaths_nil _ p (i+1) r hnr]
      simp
    · have hg' : ¬ d.digest = dg := fun e => hg e.symm
      simp only [MElems.hview, Bool.false_eq_true, if_false, restoreOne.restoreL, elemHit_placeholder, hg,
        restoreOne_placeholder, h2, MElems.revealTop, MElems.topMarks, MElems.tpaths]
      simp [hg']
  | .decoy dg r, p, i, wf, nd, hs, hm => by
    simp only [MElems.WF] at wf
    simp only [MElems.vdigests, List.nodup_cons] at nd
    simp only [MElems.stale, List.mem_cons, not_or] at hs
    simp only [MElems.topDiscs] at hm
    have h2 := MElems.step d r p (i+1) wf nd.2 hs.2 hm
    have hg : ¬ dg = d.digest := fun e => hs.1 e.symm
    simp only [MElems.hview, restoreOne.restoreL, elemHit_placeholder, hg, if_false,
      restoreOne_placeholder, h2, MElems.revealTop, MElems.topMarks, MElems.tpaths]
    simp
    congr
theorem MMems.step (d : Disc) : (ms : MMems) → (p : String) → ms.WF → ms.vdigests.Nodup →
    d.digest ∉ ms.stale → Match d ms.topDiscs →
    restoreOne.restoreM d p (ms.hview noneShown) =
      .ok ((ms.revealBelow d.digest).hview noneShown, decide (d.digest ∈ ms.belowMarks), ms.tpaths d.digest p)
  | .nil, _, _, _, _, _ => by
    simp [MMems.hview, restoreOne.restoreM, MMems.revealBelow, MMems.belowMarks, MMems.tpaths]
  | .clear k x r, p, wf, nd, hs, hm => by
    simp only [MMems.WF] at wf
    simp only [MMems.vdigests, List.nodup_append] at nd
    simp only [MMems.stale, List.mem_append, not_or] at hs
    simp only [MMems.topDiscs] at hm
    have h1 := MJ.step d x (fmtPath p k) wf.2.2.1 nd.1 hs.1 (hm.mono (by simp +contextual))
    have h2 := MMems.step d r p wf.2.2.2.2 nd.2.1 hs.2 (hm.mono (by simp +contextual))
    simp only [MMems.hview, restoreOne.restoreM, h1, h2, MMems.revealBelow, MMems.belowMarks, MMems.tpaths]
    simp
  | .marked k dg x r, p, wf, nd, hs, hm => by
    simp only [MMems.WF] at wf
    simp only [MMems.vdigests] at nd
    simp only [MMems.stale] at hs
    simp only [MMems.topDiscs] at hm
    have h2 := MMems.step d r p wf.2.2.2.2 nd hs (hm.mono (by simp +contextual))
    simp only [MMems.hview, Bool.false_eq_true, if_false, h2, MMems.revealBelow, MMems.belowMarks, MMems.tpaths]
    congr
end

end Impl
