import SdJwt.Lemmas.Kept
import SdJwt.Lemmas.Strip
/-! Strings occurring in payloads (helper definitions and lemmas for C06). -/
open Impl Spec Assoc

/-- member names and string values of a JSON value, at any depth -/
def J.strings : J → List String
  | .str s => [s]
  | .arr xs => stringsL xs
  | .obj ms => stringsM ms
  | _ => []
where
  stringsL : List J → List String
    | [] => []
    | x :: r => J.strings x ++ stringsL r
  stringsM : List (String × J) → List String
    | [] => []
    | (k, v) :: r => k :: (J.strings v ++ stringsM r)

mutual
/-- the strings of `T` that lie outside every marked node (names of marked members excluded) -/
def MJ.clearStrings : MJ → List String
  | .leaf j => J.strings j
  | .arr xs => xs.clearStrings
  | .obj ms _ => ms.clearStrings
def MElems.clearStrings : MElems → List String
  | .nil => []
  | .clear x r => x.clearStrings ++ r.clearStrings
  | .marked _ _ r => r.clearStrings
  | .decoy _ r => r.clearStrings
def MMems.clearStrings : MMems → List String
  | .nil => []
  | .clear k x r => k :: (x.clearStrings ++ r.clearStrings)
  | .marked _ _ _ r => r.clearStrings
end

theorem strings_ains (k : String) (v : J) : (l : List (String × J)) →
    ∀ s ∈ J.strings.stringsM (ains k v l), s = k ∨ s ∈ J.strings v ∨ s ∈ J.strings.stringsM l
  | [], s, h => by simpa [ains, J.strings.stringsM] using h
  | (k', v') :: r, s, h => by
    unfold ains at h
    split at h
    · simp [J.strings.stringsM] at h ⊢; grind
    · split at h
      · simp [J.strings.stringsM] at h ⊢; grind
      · simp [J.strings.stringsM] at h ⊢
        rcases h with h | h | h
        · grind
        · grind
        · have := strings_ains k v r s h; grind

theorem strings_strs (ds : List String) : J.strings.stringsL (ds.map .str) = ds := by
  induction ds with
  | nil => rfl
  | cons d r ih => simp [J.strings.stringsL, J.strings, ih]

mutual
theorem MJ.payload_strings : (T : MJ) → ∀ s ∈ J.strings (T.hview (fun _ => false)),
    s ∈ T.clearStrings ∨ s ∈ T.digests ∨ s = "_sd" ∨ s = "..."
  | .leaf j, s, h => by left; simpa [MJ.hview, MJ.clearStrings] using h
  | .arr xs, s, h => by
    simp only [MJ.hview, J.strings] at h
    simpa [MJ.clearStrings, MJ.digests] using MElems.payload_strings xs s h
  | .obj ms sd, s, h => by
    simp only [MJ.hview, J.strings] at h
    cases sd with
    | none =>
      simp only [withSd] at h
      rcases MMems.payload_strings ms s h with h | h | h | h
      · left; simpa [MJ.clearStrings] using h
      · right; left; simp [MJ.digests, h]
      · grind
      · grind
    | some ds =>
      simp only [withSd] at h
      rcases strings_ains _ _ _ s h with h | h | h
      · grind
      · right; left
        simp only [J.strings, strings_strs] at h
        simp [MJ.digests, h]
      · rcases MMems.payload_strings ms s h with h | h | h | h
        · left; simpa [MJ.clearStrings] using h
        · right; left; simp [MJ.digests, h]
        · grind
        · grind
theorem MElems.payload_strings : (xs : MElems) → ∀ s ∈ J.strings.stringsL (xs.hview (fun _ => false)),
    s ∈ xs.clearStrings ∨ s ∈ xs.digests ∨ s = "_sd" ∨ s = "..."
  | .nil, s, h => by simp [MElems.hview, J.strings.stringsL] at h
  | .clear x r, s, h => by
    simp only [MElems.hview, J.strings.stringsL, List.mem_append] at h
    rcases h with h | h
    · rcases MJ.payload_strings x s h with h | h | h | h
      · left; simp [MElems.clearStrings, h]
      · right; left; simp [MElems.digests, h]
      · grind
      · grind
    · rcases MElems.payload_strings r s h with h | h | h | h
      · left; simp [MElems.clearStrings, h]
      · right; left; simp [MElems.digests, h]
      · grind
      · grind
  | .marked g x r, s, h => by
    simp only [MElems.hview, Bool.false_eq_true, if_false, J.strings.stringsL, List.mem_append] at h
    rcases h with h | h
    · simp [placeholder, J.strings, J.strings.stringsM] at h
      rcases h with h | h
      · grind
      · right; left; simp [MElems.digests, h]
    · rcases MElems.payload_strings r s h with h | h | h | h
      · left; simp [MElems.clearStrings, h]
      · right; left; simp [MElems.digests, h]
      · grind
      · grind
  | .decoy g r, s, h => by
    simp only [MElems.hview, J.strings.stringsL, List.mem_append] at h
    rcases h with h | h
    · simp [placeholder, J.strings, J.strings.stringsM] at h
      rcases h with h | h
      · grind
      · right; left; simp [MElems.digests, h]
    · rcases MElems.payload_strings r s h with h | h | h | h
      · left; simp [MElems.clearStrings, h]
      · right; left; simp [MElems.digests, h]
      · grind
      · grind
theorem MMems.payload_strings : (ms : MMems) → ∀ s ∈ J.strings.stringsM (ms.hview (fun _ => false)),
    s ∈ ms.clearStrings ∨ s ∈ ms.digests ∨ s = "_sd" ∨ s = "..."
  | .nil, s, h => by simp [MMems.hview, J.strings.stringsM] at h
  | .clear k x r, s, h => by
    simp only [MMems.hview, J.strings.stringsM, List.mem_cons, List.mem_append] at h
    rcases h with h | h | h
    · left; simp [MMems.clearStrings, h]
    · rcases MJ.payload_strings x s h with h | h | h | h
      · left; simp [MMems.clearStrings, h]
      · right; left; simp [MMems.digests, h]
      · grind
      · grind
    · rcases MMems.payload_strings r s h with h | h | h | h
      · left; simp [MMems.clearStrings, h]
      · right; left; simp [MMems.digests, h]
      · grind
      · grind
  | .marked k g x r, s, h => by
    simp only [MMems.hview, Bool.false_eq_true, if_false] at h
    rcases MMems.payload_strings r s h with h | h | h | h
    · left; simp [MMems.clearStrings, h]
    · right; left; simp [MMems.digests, h]
    · grind
    · grind
end

