import SdJwt.Lemmas.Reveal
/-! Mark digests: distinctness, and `project` under `revealTop`. -/
open Assoc Spec

mutual
theorem MJ.topMarks_sub_all : (T : MJ) → ∀ g ∈ T.topMarks, g ∈ T.allMarks
  | .leaf _, g, h => by simp [MJ.topMarks] at h
  | .arr xs, g, h => by simpa [MJ.allMarks] using MElems.topMarks_sub_all xs g (by simpa [MJ.topMarks] using h)
  | .obj ms _, g, h => by simpa [MJ.allMarks] using MMems.topMarks_sub_all ms g (by simpa [MJ.topMarks] using h)
theorem MElems.topMarks_sub_all : (xs : MElems) → ∀ g ∈ xs.topMarks, g ∈ xs.allMarks
  | .nil, g, h => by simp [MElems.topMarks] at h
  | .clear x r, g, h => by
    simp only [MElems.topMarks, List.mem_append] at h
    simp only [MElems.allMarks, List.mem_append]
    exact h.imp (MJ.topMarks_sub_all x g) (MElems.topMarks_sub_all r g)
  | .marked dg x r, g, h => by
    simp only [MElems.topMarks, List.mem_cons] at h
    simp only [MElems.allMarks, List.mem_cons, List.mem_append]
    rcases h with h | h
    · left; exact h
    · right; right; exact MElems.topMarks_sub_all r g h
  | .decoy dg r, g, h => by
    simp only [MElems.topMarks] at h
    simpa [MElems.allMarks] using MElems.topMarks_sub_all r g h
theorem MMems.topMarks_sub_all : (ms : MMems) → ∀ g ∈ ms.topMarks, g ∈ ms.allMarks
  | .nil, g, h => by simp [MMems.topMarks] at h
  | .clear k x r, g, h => by
    simp only [MMems.topMarks, List.mem_append] at h
    simp only [MMems.allMarks, List.mem_append]
    exact h.imp (MJ.topMarks_sub_all x g) (MMems.topMarks_sub_all r g)
  | .marked k dg x r, g, h => by
    simp only [MMems.topMarks, List.mem_cons] at h
    simp only [MMems.allMarks, List.mem_cons, List.mem_append]
    rcases h with h | h
    · left; exact h
    · right; right; exact MMems.topMarks_sub_all r g h
end

mutual
theorem MJ.hiddenMarks_sub_all : (T : MJ) → ∀ g ∈ T.hiddenMarks, g ∈ T.allMarks
  | .leaf _, g, h => by simp [MJ.hiddenMarks] at h
  | .arr xs, g, h => by simpa [MJ.allMarks] using MElems.hiddenMarks_sub_all xs g (by simpa [MJ.hiddenMarks] using h)
  | .obj ms _, g, h => by simpa [MJ.allMarks] using MMems.hiddenMarks_sub_all ms g (by simpa [MJ.hiddenMarks] using h)
theorem MElems.hiddenMarks_sub_all : (xs : MElems) → ∀ g ∈ xs.hiddenMarks, g ∈ xs.allMarks
  | .nil, g, h => by simp [MElems.hiddenMarks] at h
  | .clear x r, g, h => by
    simp only [MElems.hiddenMarks, List.mem_append] at h
    simp only [MElems.allMarks, List.mem_append]
    exact h.imp (MJ.hiddenMarks_sub_all x g) (MElems.hiddenMarks_sub_all r g)
  | .marked dg x r, g, h => by
    simp only [MElems.hiddenMarks, List.mem_append] at h
    simp only [MElems.allMarks, List.mem_cons, List.mem_append]
    rcases h with h | h
    · right; left; exact h
    · right; right; exact MElems.hiddenMarks_sub_all r g h
  | .decoy dg r, g, h => by
    simp only [MElems.hiddenMarks] at h
    simpa [MElems.allMarks] using MElems.hiddenMarks_sub_all r g h
theorem MMems.hiddenMarks_sub_all : (ms : MMems) → ∀ g ∈ ms.hiddenMarks, g ∈ ms.allMarks
  | .nil, g, h => by simp [MMems.hiddenMarks] at h
  | .clear k x r, g, h => by
    simp only [MMems.hiddenMarks, List.mem_append] at h
    simp only [MMems.allMarks, List.mem_append]
    exact h.imp (MJ.hiddenMarks_sub_all x g) (MMems.hiddenMarks_sub_all r g)
  | .marked k dg x r, g, h => by
    simp only [MMems.hiddenMarks, List.mem_append] at h
    simp only [MMems.allMarks, List.mem_cons, List.mem_append]
    rcases h with h | h
    · right; left; exact h
    · right; right; exact MMems.hiddenMarks_sub_all r g h
end

mutual
/-- a visible mark is not also a hidden one, when all mark digests are distinct -/
theorem MJ.top_not_hidden : (T : MJ) → T.allMarks.Nodup → ∀ g ∈ T.topMarks, g ∉ T.hiddenMarks
  | .leaf _, _, g, h => by simp [MJ.topMarks] at h
  | .arr xs, nd, g, h => by
    simpa [MJ.hiddenMarks] using MElems.top_not_hidden xs (by simpa [MJ.allMarks] using nd) g (by simpa [MJ.topMarks] using h)
  | .obj ms _, nd, g, h => by
    simpa [MJ.hiddenMarks] using MMems.top_not_hidden ms (by simpa [MJ.allMarks] using nd) g (by simpa [MJ.topMarks] using h)
theorem MElems.top_not_hidden : (xs : MElems) → xs.allMarks.Nodup → ∀ g ∈ xs.topMarks, g ∉ xs.hiddenMarks
  | .nil, _, g, h => by simp [MElems.topMarks] at h
  | .clear x r, nd, g, h => by
    simp only [MElems.allMarks, List.nodup_append] at nd
    simp only [MElems.topMarks, List.mem_append] at h
    simp only [MElems.hiddenMarks, List.mem_append, not_or]
    rcases h with h | h
    · exact ⟨MJ.top_not_hidden x nd.1 g h,
        fun hh => nd.2.2 g (MJ.topMarks_sub_all x g h) g (MElems.hiddenMarks_sub_all r g hh) rfl⟩
    · exact ⟨fun hh => nd.2.2 g (MJ.hiddenMarks_sub_all x g hh) g (MElems.topMarks_sub_all r g h) rfl,
        MElems.top_not_hidden r nd.2.1 g h⟩
  | .marked dg x r, nd, g, h => by
    simp only [MElems.allMarks, List.nodup_cons, List.mem_append, not_or, List.nodup_append] at nd
    simp only [MElems.topMarks, List.mem_cons] at h
    simp only [MElems.hiddenMarks, List.mem_append, not_or]
    rcases h with h | h
    · subst h
      exact ⟨nd.1.1, fun hh => nd.1.2 (MElems.hiddenMarks_sub_all r g hh)⟩
    · exact ⟨fun hh => nd.2.2.2 g hh g (MElems.topMarks_sub_all r g h) rfl,
        MElems.top_not_hidden r nd.2.2.1 g h⟩
  | .decoy dg r, nd, g, h => by
    simp only [MElems.allMarks] at nd
    simp only [MElems.topMarks] at h
    simpa [MElems.hiddenMarks] using MElems.top_not_hidden r nd g h
theorem MMems.top_not_hidden : (ms : MMems) → ms.allMarks.Nodup → ∀ g ∈ ms.topMarks, g ∉ ms.hiddenMarks
  | .nil, _, g, h => by simp [MMems.topMarks] at h
  | .clear k x r, nd, g, h => by
    simp only [MMems.allMarks, List.nodup_append] at nd
    simp only [MMems.topMarks, List.mem_append] at h
    simp only [MMems.hiddenMarks, List.mem_append, not_or]
    rcases h with h | h
    · exact ⟨MJ.top_not_hidden x nd.1 g h,
        fun hh => nd.2.2 g (MJ.topMarks_sub_all x g h) g (MMems.hiddenMarks_sub_all r g hh) rfl⟩
    · exact ⟨fun hh => nd.2.2 g (MJ.hiddenMarks_sub_all x g hh) g (MMems.topMarks_sub_all r g h) rfl,
        MMems.top_not_hidden r nd.2.1 g h⟩
  | .marked k dg x r, nd, g, h => by
    simp only [MMems.allMarks, List.nodup_cons, List.mem_append, not_or, List.nodup_append] at nd
    simp only [MMems.topMarks, List.mem_cons] at h
    simp only [MMems.hiddenMarks, List.mem_append, not_or]
    rcases h with h | h
    · subst h
      exact ⟨nd.1.1, fun hh => nd.1.2 (MMems.hiddenMarks_sub_all r g hh)⟩
    · exact ⟨fun hh => nd.2.2.2 g hh g (MMems.topMarks_sub_all r g h) rfl,
        MMems.top_not_hidden r nd.2.2.1 g h⟩
end

/-- `project` depends on the selector only through the marks of the tree -/
def agreeOn (S S' : String → Bool) (l : List String) : Prop := ∀ g ∈ l, S g = S' g

mutual
theorem MJ.project_congr (S S' : String → Bool) : (T : MJ) → agreeOn S S' T.allMarks → T.project S = T.project S'
  | .leaf _, _ => rfl
  | .arr xs, h => by simp [MJ.project, MElems.project_congr S S' xs (by simpa [MJ.allMarks] using h)]
  | .obj ms _, h => by simp [MJ.project, MMems.project_congr S S' ms (by simpa [MJ.allMarks] using h)]
theorem MElems.project_congr (S S' : String → Bool) : (xs : MElems) → agreeOn S S' xs.allMarks →
    xs.project S = xs.project S'
  | .nil, _ => rfl
  | .clear x r, h => by
    simp only [MElems.allMarks] at h
    simp [MElems.project, MJ.project_congr S S' x (fun g hg => h g (by simp [hg])),
      MElems.project_congr S S' r (fun g hg => h g (by simp [hg]))]
  | .marked dg x r, h => by
    simp only [MElems.allMarks] at h
    simp [MElems.project, h dg (by simp), MJ.project_congr S S' x (fun g hg => h g (by simp [hg])),
      MElems.project_congr S S' r (fun g hg => h g (by simp [hg]))]
  | .decoy dg r, h => by
    simp only [MElems.allMarks] at h
    simp [MElems.project, MElems.project_congr S S' r h]
theorem MMems.project_congr (S S' : String → Bool) : (ms : MMems) → agreeOn S S' ms.allMarks →
    ms.project S = ms.project S'
  | .nil, _ => rfl
  | .clear k x r, h => by
    simp only [MMems.allMarks] at h
    simp [MMems.project, MJ.project_congr S S' x (fun g hg => h g (by simp [hg])),
      MMems.project_congr S S' r (fun g hg => h g (by simp [hg]))]
  | .marked k dg x r, h => by
    simp only [MMems.allMarks] at h
    simp [MMems.project, h dg (by simp), MJ.project_congr S S' x (fun g hg => h g (by simp [hg])),
      MMems.project_congr S S' r (fun g hg => h g (by simp [hg]))]
end

/-- add one digest to a selector -/
def withShown (S : String → Bool) (g : String) : String → Bool := fun h => h = g || S h

mutual
/-- revealing the visible node marked `g` and then projecting with `S` is projecting the original
with `S ∪ {g}` — provided no node hidden inside another marked node is also marked `g` -/
theorem MJ.project_revealTop (S : String → Bool) (g : String) : (T : MJ) → g ∉ T.hiddenMarks →
    (T.revealTop g).project S = T.project (withShown S g)
  | .leaf _, _ => rfl
  | .arr xs, h => by
    simp [MJ.revealTop, MJ.project, MElems.project_revealTop S g xs (by simpa [MJ.hiddenMarks] using h)]
  | .obj ms _, h => by
    simp [MJ.revealTop, MJ.project, MMems.project_revealTop S g ms (by simpa [MJ.hiddenMarks] using h)]
theorem MElems.project_revealTop (S : String → Bool) (g : String) : (xs : MElems) → g ∉ xs.hiddenMarks →
    (xs.revealTop g).project S = xs.project (withShown S g)
  | .nil, _ => rfl
  | .clear x r, h => by
    simp only [MElems.hiddenMarks, List.mem_append, not_or] at h
    simp [MElems.revealTop, MElems.project, MJ.project_revealTop S g x h.1, MElems.project_revealTop S g r h.2]
  | .marked dg x r, h => by
    simp only [MElems.hiddenMarks, List.mem_append, not_or] at h
    have hx : x.project S = x.project (withShown S g) :=
      MJ.project_congr _ _ x (fun g' hg' => by
        have : g' ≠ g := fun e => h.1 (e ▸ hg')
        simp [withShown, this])
    by_cases hd : dg = g
    · simp [MElems.revealTop, MElems.project, hd, withShown, ← hx, MElems.project_revealTop S g r h.2]
    · simp [MElems.revealTop, MElems.project, hd, withShown, ← hx, MElems.project_revealTop S g r h.2]
  | .decoy dg r, h => by
    simp only [MElems.hiddenMarks] at h
    simp [MElems.revealTop, MElems.project, MElems.project_revealTop S g r h]
theorem MMems.project_revealTop (S : String → Bool) (g : String) : (ms : MMems) → g ∉ ms.hiddenMarks →
    (ms.revealTop g).project S = ms.project (withShown S g)
  | .nil, _ => rfl
  | .clear k x r, h => by
    simp only [MMems.hiddenMarks, List.mem_append, not_or] at h
    simp [MMems.revealTop, MMems.project, MJ.project_revealTop S g x h.1, MMems.project_revealTop S g r h.2]
  | .marked k dg x r, h => by
    simp only [MMems.hiddenMarks, List.mem_append, not_or] at h
    have hx : x.project S = x.project (withShown S g) :=
      MJ.project_congr _ _ x (fun g' hg' => by
        have : g' ≠ g := fun e => h.1 (e ▸ hg')
        simp [withShown, this])
    by_cases hd : dg = g
    · simp [MMems.revealTop, MMems.project, hd, withShown, ← hx, MMems.project_revealTop S g r h.2]
    · simp [MMems.revealTop, MMems.project, hd, withShown, ← hx, MMems.project_revealTop S g r h.2]
end

mutual
/-- selecting only digests that are not visible marks selects nothing -/
theorem MJ.project_not_top (Q : String → Bool) : (T : MJ) → (∀ g ∈ T.topMarks, Q g = false) →
    T.project Q = T.project noneShown
  | .leaf _, _ => rfl
  | .arr xs, h => by simp [MJ.project, MElems.project_not_top Q xs (by simpa [MJ.topMarks] using h)]
  | .obj ms _, h => by simp [MJ.project, MMems.project_not_top Q ms (by simpa [MJ.topMarks] using h)]
theorem MElems.project_not_top (Q : String → Bool) : (xs : MElems) → (∀ g ∈ xs.topMarks, Q g = false) →
    xs.project Q = xs.project noneShown
  | .nil, _ => rfl
  | .clear x r, h => by
    simp only [MElems.topMarks] at h
    simp [MElems.project, MJ.project_not_top Q x (fun g hg => h g (by simp [hg])),
      MElems.project_not_top Q r (fun g hg => h g (by simp [hg]))]
  | .marked dg x r, h => by
    simp only [MElems.topMarks] at h
    simp [MElems.project, h dg (by simp), MElems.project_not_top Q r (fun g hg => h g (by simp [hg]))]
  | .decoy dg r, h => by
    simp only [MElems.topMarks] at h
    simp [MElems.project, MElems.project_not_top Q r h]
theorem MMems.project_not_top (Q : String → Bool) : (ms : MMems) → (∀ g ∈ ms.topMarks, Q g = false) →
    ms.project Q = ms.project noneShown
  | .nil, _ => rfl
  | .clear k x r, h => by
    simp only [MMems.topMarks] at h
    simp [MMems.project, MJ.project_not_top Q x (fun g hg => h g (by simp [hg])),
      MMems.project_not_top Q r (fun g hg => h g (by simp [hg]))]
  | .marked k dg x r, h => by
    simp only [MMems.topMarks] at h
    simp [MMems.project, h dg (by simp), MMems.project_not_top Q r (fun g hg => h g (by simp [hg]))]
end

mutual
theorem MJ.allMarks_revealTop (g : String) : (T : MJ) → (T.revealTop g).allMarks.Sublist T.allMarks
  | .leaf _ => List.Sublist.refl _
  | .arr xs => by simpa [MJ.revealTop, MJ.allMarks] using MElems.allMarks_revealTop g xs
  | .obj ms _ => by simpa [MJ.revealTop, MJ.allMarks] using MMems.allMarks_revealTop g ms
theorem MElems.allMarks_revealTop (g : String) : (xs : MElems) → (xs.revealTop g).allMarks.Sublist xs.allMarks
  | .nil => List.Sublist.refl _
  | .clear x r => by
    simp only [MElems.revealTop, MElems.allMarks]
    exact (MJ.allMarks_revealTop g x).append (MElems.allMarks_revealTop g r)
  | .marked dg x r => by
    simp only [MElems.revealTop]
    split
    · simp only [MElems.allMarks]
      exact ((List.Sublist.refl _).append (MElems.allMarks_revealTop g r)).trans (List.sublist_cons_self _ _)
    · simp only [MElems.allMarks]
      exact ((List.Sublist.refl _).append (MElems.allMarks_revealTop g r)).cons₂ _
  | .decoy dg r => by
    simp only [MElems.revealTop, MElems.allMarks]
    exact MElems.allMarks_revealTop g r
theorem MMems.allMarks_revealTop (g : String) : (ms : MMems) → (ms.revealTop g).allMarks.Sublist ms.allMarks
  | .nil => List.Sublist.refl _
  | .clear k x r => by
    simp only [MMems.revealTop, MMems.allMarks]
    exact (MJ.allMarks_revealTop g x).append (MMems.allMarks_revealTop g r)
  | .marked k dg x r => by
    simp only [MMems.revealTop]
    split
    · simp only [MMems.allMarks]
      exact ((List.Sublist.refl _).append (MMems.allMarks_revealTop g r)).trans (List.sublist_cons_self _ _)
    · simp only [MMems.allMarks]
      exact ((List.Sublist.refl _).append (MMems.allMarks_revealTop g r)).cons₂ _
end

mutual
/-- once revealed, `g` is no longer the digest of any marked node -/
theorem MJ.revealed_gone (g : String) : (T : MJ) → T.allMarks.Nodup → g ∈ T.topMarks →
    g ∉ (T.revealTop g).allMarks
  | .leaf _, _, h => by simp [MJ.topMarks] at h
  | .arr xs, nd, h => by
    simpa [MJ.revealTop, MJ.allMarks] using MElems.revealed_gone g xs (by simpa [MJ.allMarks] using nd) (by simpa [MJ.topMarks] using h)
  | .obj ms _, nd, h => by
    simpa [MJ.revealTop, MJ.allMarks] using MMems.revealed_gone g ms (by simpa [MJ.allMarks] using nd) (by simpa [MJ.topMarks] using h)
theorem MElems.revealed_gone (g : String) : (xs : MElems) → xs.allMarks.Nodup → g ∈ xs.topMarks →
    g ∉ (xs.revealTop g).allMarks
  | .nil, _, h => by simp [MElems.topMarks] at h
  | .clear x r, nd, h => by
    simp only [MElems.allMarks, List.nodup_append] at nd
    simp only [MElems.topMarks, List.mem_append] at h
    simp only [MElems.revealTop, MElems.allMarks, List.mem_append, not_or]
    rcases h with h | h
    · exact ⟨MJ.revealed_gone g x nd.1 h, fun hh =>
        nd.2.2 g (MJ.topMarks_sub_all x g h) g ((MElems.allMarks_revealTop g r).subset hh) rfl⟩
    · exact ⟨fun hh => nd.2.2 g ((MJ.allMarks_revealTop g x).subset hh) g (MElems.topMarks_sub_all r g h) rfl,
        MElems.revealed_gone g r nd.2.1 h⟩
  | .marked dg x r, nd, h => by
    simp only [MElems.allMarks, List.nodup_cons, List.mem_append, not_or, List.nodup_append] at nd
    simp only [MElems.topMarks, List.mem_cons] at h
    by_cases hd : dg = g
    · subst hd
      simp only [MElems.revealTop, if_true, MElems.allMarks, List.mem_append, not_or]
      exact ⟨nd.1.1, fun hh => nd.1.2 ((MElems.allMarks_revealTop dg r).subset hh)⟩
    · have hr : g ∈ r.topMarks := by
        rcases h with h | h
        · exact absurd h.symm hd
        · exact h
      simp only [MElems.revealTop, hd, if_false, MElems.allMarks, List.mem_cons, List.mem_append, not_or]
      exact ⟨fun e => hd e.symm, fun hh => nd.2.2.2 g hh g (MElems.topMarks_sub_all r g hr) rfl,
        MElems.revealed_gone g r nd.2.2.1 hr⟩
  | .decoy dg r, nd, h => by
    simp only [MElems.allMarks] at nd
    simp only [MElems.topMarks] at h
    simpa [MElems.revealTop, MElems.allMarks] using MElems.revealed_gone g r nd h
theorem MMems.revealed_gone (g : String) : (ms : MMems) → ms.allMarks.Nodup → g ∈ ms.topMarks →
    g ∉ (ms.revealTop g).allMarks
  | .nil, _, h => by simp [MMems.topMarks] at h
  | .clear k x r, nd, h => by
    simp only [MMems.allMarks, List.nodup_append] at nd
    simp only [MMems.topMarks, List.mem_append] at h
    simp only [MMems.revealTop, MMems.allMarks, List.mem_append, not_or]
    rcases h with h | h
    · exact ⟨MJ.revealed_gone g x nd.1 h, fun hh =>
        nd.2.2 g (MJ.topMarks_sub_all x g h) g ((MMems.allMarks_revealTop g r).subset hh) rfl⟩
    · exact ⟨fun hh => nd.2.2 g ((MJ.allMarks_revealTop g x).subset hh) g (MMems.topMarks_sub_all r g h) rfl,
        MMems.revealed_gone g r nd.2.1 h⟩
  | .marked k dg x r, nd, h => by
    simp only [MMems.allMarks, List.nodup_cons, List.mem_append, not_or, List.nodup_append] at nd
    simp only [MMems.topMarks, List.mem_cons] at h
    by_cases hd : dg = g
    · subst hd
      simp only [MMems.revealTop, if_true, MMems.allMarks, List.mem_append, not_or]
      exact ⟨nd.1.1, fun hh => nd.1.2 ((MMems.allMarks_revealTop dg r).subset hh)⟩
    · have hr : g ∈ r.topMarks := by
        rcases h with h | h
        · exact absurd h.symm hd
        · exact h
      simp only [MMems.revealTop, hd, if_false, MMems.allMarks, List.mem_cons, List.mem_append, not_or]
      exact ⟨fun e => hd e.symm, fun hh => nd.2.2.2 g hh g (MMems.topMarks_sub_all r g hr) rfl,
        MMems.revealed_gone g r nd.2.2.1 hr⟩
end

theorem mem_marks_revealTop (g h : String) : (ms : MMems) → h ∈ ms.marks → h ∈ (ms.revealTop g).marks ∨ h = g
  | .nil, hh => by simp [MMems.marks] at hh
  | .clear k x r, hh => by
    simp only [MMems.marks] at hh
    simpa [MMems.revealTop, MMems.marks] using mem_marks_revealTop g h r hh
  | .marked k dg x r, hh => by
    simp only [MMems.marks, List.mem_cons] at hh
    simp only [MMems.revealTop]
    split
    · rename_i hd
      simp only [MMems.marks]
      rcases hh with hh | hh
      · right; rw [hh, hd]
      · exact mem_marks_revealTop g h r hh
    · simp only [MMems.marks, List.mem_cons]
      rcases hh with hh | hh
      · left; left; exact hh
      · rcases mem_marks_revealTop g h r hh with h1 | h1
        · left; right; exact h1
        · right; exact h1

mutual
theorem MJ.deepStale_revealTop (g : String) : (T : MJ) → ∀ h ∈ (T.revealTop g).deepStale, h ∈ T.deepStale ∨ h = g
  | .leaf _, h, hh => by simp [MJ.revealTop, MJ.deepStale] at hh
  | .arr xs, h, hh => by
    simpa [MJ.deepStale] using MElems.deepStale_revealTop g xs h (by simpa [MJ.revealTop, MJ.deepStale] using hh)
  | .obj ms sd, h, hh => by
    simp only [MJ.revealTop, MJ.deepStale, List.mem_append, List.mem_filter, Bool.not_eq_true',
      List.contains_eq_mem, decide_eq_false_iff_not] at hh ⊢
    rcases hh with ⟨h1, h2⟩ | hh
    · by_cases hm : h ∈ ms.marks
      · rcases mem_marks_revealTop g h ms hm with h3 | h3
        · exact absurd h3 h2
        · right; exact h3
      · left; left; exact ⟨h1, hm⟩
    · rcases MMems.deepStale_revealTop g ms h hh with h3 | h3
      · left; right; exact h3
      · right; exact h3
theorem MElems.deepStale_revealTop (g : String) : (xs : MElems) → ∀ h ∈ (xs.revealTop g).deepStale, h ∈ xs.deepStale ∨ h = g
  | .nil, h, hh => by simp [MElems.revealTop, MElems.deepStale] at hh
  | .clear x r, h, hh => by
    simp only [MElems.revealTop, MElems.deepStale, List.mem_append] at hh ⊢
    rcases hh with hh | hh
    · exact (MJ.deepStale_revealTop g x h hh).imp Or.inl id
    · exact (MElems.deepStale_revealTop g r h hh).imp Or.inr id
  | .marked dg x r, h, hh => by
    simp only [MElems.revealTop] at hh
    split at hh
    · simp only [MElems.deepStale, List.mem_append] at hh ⊢
      rcases hh with hh | hh
      · left; left; exact hh
      · exact (MElems.deepStale_revealTop g r h hh).imp Or.inr id
    · simp only [MElems.deepStale, List.mem_append] at hh ⊢
      rcases hh with hh | hh
      · left; left; exact hh
      · exact (MElems.deepStale_revealTop g r h hh).imp Or.inr id
  | .decoy dg r, h, hh => by
    simp only [MElems.revealTop, MElems.deepStale, List.mem_cons] at hh ⊢
    rcases hh with hh | hh
    · left; left; exact hh
    · exact (MElems.deepStale_revealTop g r h hh).imp Or.inr id
theorem MMems.deepStale_revealTop (g : String) : (ms : MMems) → ∀ h ∈ (ms.revealTop g).deepStale, h ∈ ms.deepStale ∨ h = g
  | .nil, h, hh => by simp [MMems.revealTop, MMems.deepStale] at hh
  | .clear k x r, h, hh => by
    simp only [MMems.revealTop, MMems.deepStale, List.mem_append] at hh ⊢
    rcases hh with hh | hh
    · exact (MJ.deepStale_revealTop g x h hh).imp Or.inl id
    · exact (MMems.deepStale_revealTop g r h hh).imp Or.inr id
  | .marked k dg x r, h, hh => by
    simp only [MMems.revealTop] at hh
    split at hh
    · simp only [MMems.deepStale, List.mem_append] at hh ⊢
      rcases hh with hh | hh
      · left; left; exact hh
      · exact (MMems.deepStale_revealTop g r h hh).imp Or.inr id
    · simp only [MMems.deepStale, List.mem_append] at hh ⊢
      rcases hh with hh | hh
      · left; left; exact hh
      · exact (MMems.deepStale_revealTop g r h hh).imp Or.inr id
end

mutual
theorem MJ.stale_sub_deep : (T : MJ) → ∀ h ∈ T.stale, h ∈ T.deepStale
  | .leaf _, h, hh => by simp [MJ.stale] at hh
  | .arr xs, h, hh => by simpa [MJ.deepStale] using MElems.stale_sub_deep xs h (by simpa [MJ.stale] using hh)
  | .obj ms sd, h, hh => by
    simp only [MJ.stale, MJ.deepStale, List.mem_append] at hh ⊢
    exact hh.imp id (MMems.stale_sub_deep ms h)
theorem MElems.stale_sub_deep : (xs : MElems) → ∀ h ∈ xs.stale, h ∈ xs.deepStale
  | .nil, h, hh => by simp [MElems.stale] at hh
  | .clear x r, h, hh => by
    simp only [MElems.stale, MElems.deepStale, List.mem_append] at hh ⊢
    exact hh.imp (MJ.stale_sub_deep x h) (MElems.stale_sub_deep r h)
  | .marked dg x r, h, hh => by
    simp only [MElems.stale, MElems.deepStale, List.mem_append] at hh ⊢
    right; exact MElems.stale_sub_deep r h hh
  | .decoy dg r, h, hh => by
    simp only [MElems.stale, MElems.deepStale, List.mem_cons] at hh ⊢
    exact hh.imp id (MElems.stale_sub_deep r h)
theorem MMems.stale_sub_deep : (ms : MMems) → ∀ h ∈ ms.stale, h ∈ ms.deepStale
  | .nil, h, hh => by simp [MMems.stale] at hh
  | .clear k x r, h, hh => by
    simp only [MMems.stale, MMems.deepStale, List.mem_append] at hh ⊢
    exact hh.imp (MJ.stale_sub_deep x h) (MMems.stale_sub_deep r h)
  | .marked k dg x r, h, hh => by
    simp only [MMems.stale, MMems.deepStale, List.mem_append] at hh ⊢
    right; exact MMems.stale_sub_deep r h hh
end
