import SdJwt.Lemmas.Check
import SdJwt.Impl.Flows
/-! Rejection lemmas (C12): how a defect anywhere turns into an `err` of the entry points. -/
open Assoc
namespace Impl

/-- if decoding of the list succeeds, every presented string decodes on its own -/
theorem decodeAll_ok_each (env : Env) : (ss : List String) → (acc ds : List Disc) →
    decodeAll env ss acc = .ok ds → ∀ s ∈ ss, ∃ d, fromBase64 env s = .ok d
  | [], _, _, _ => by simp
  | s :: r, acc, ds, h => by
    unfold decodeAll at h
    cases hf : fromBase64 env s with
    | panic => simp [hf] at h
    | err e => simp [hf] at h
    | ok d =>
      simp only [hf] at h
      split at h
      · cases h
      · intro s' hs'
        simp at hs'
        rcases hs' with rfl | hs'
        · exact ⟨d, hf⟩
        · exact decodeAll_ok_each env r _ ds h s' hs'

/-- a presented string that does not decode to a well-formed disclosure makes the whole
restoration fail, wherever it stands in the list and whether or not it is referenced -/
theorem restoreAll_err_of_bad_disclosure (env : Env) (claims : J) (ss : List String) (s : String)
    (hs : s ∈ ss) (hbad : ∀ d, fromBase64 env s ≠ .ok d) : ∃ e, restoreAll env claims ss = .err e := by
  have hnp := restoreAll_noPanic env claims ss
  cases h : restoreAll env claims ss with
  | panic => exact absurd h hnp
  | err e => exact ⟨e, rfl⟩
  | ok r =>
    exfalso
    unfold restoreAll at h
    cases hd : decodeAll env ss [] with
    | panic => simp [hd] at h
    | err e => simp [hd] at h
    | ok ds =>
      obtain ⟨d, hd'⟩ := decodeAll_ok_each env ss [] ds hd s hs
      exact hbad d hd'

/-- the validating pre-pass runs over the payload before anything is placed -/
theorem restoreDecoded_ok_check (claims : J) (pending : List Disc) (r : J × List PathEntry)
    (h : restoreDecoded claims pending = .ok r) : ∃ seen, checkDigests claims [] = .ok seen := by
  unfold restoreDecoded at h
  cases hc : checkDigests claims [] with
  | panic => simp [hc] at h
  | err e => simp [hc] at h
  | ok seen => exact ⟨seen, rfl⟩

theorem restoreAll_ok_check (env : Env) (claims : J) (ss : List String) (r : J × List PathEntry)
    (h : restoreAll env claims ss = .ok r) : ∃ seen, checkDigests claims [] = .ok seen := by
  unfold restoreAll at h
  cases hd : decodeAll env ss [] with
  | panic => simp [hd] at h
  | err e => simp [hd] at h
  | ok ds =>
    simp only [hd] at h
    exact restoreDecoded_ok_check claims ds r h

/-- …and over the value of every presented disclosure, with the same set of seen digests -/
theorem checkValues_ok_each : (ds : List Disc) → (seen s : List String) → checkValues ds seen = .ok s →
    ∀ d ∈ ds, ∃ seen' s', checkDigests d.value seen' = .ok s'
  | [], _, _, _ => by simp
  | d :: r, seen, s, h => by
    unfold checkValues at h
    cases hc : checkDigests d.value seen with
    | panic => simp [hc] at h
    | err e => simp [hc] at h
    | ok s1 =>
      simp only [hc] at h
      intro d' hd'
      simp at hd'
      rcases hd' with rfl | hd'
      · exact ⟨seen, s1, hc⟩
      · exact checkValues_ok_each r s1 s h d' hd'

end Impl

namespace Impl

/-- all digests embedded in the values of a list of disclosures, in list order -/
def embeddedValues (ds : List Disc) : List String := (ds.map (fun d => embedded d.value)).flatten

/-- the pre-pass over the disclosure values: one shared set of seen digests -/
theorem checkValues_spec : (ds : List Disc) → (seen s : List String) → checkValues ds seen = .ok s →
    s = seen ++ embeddedValues ds ∧ (∀ g ∈ embeddedValues ds, g ∉ seen) ∧ (embeddedValues ds).Nodup ∧
    ∀ d ∈ ds, hasBadSd d.value = false ∧ hasBadPlaceholder d.value = false
  | [], seen, s, h => by
    simp only [checkValues, Outcome.ok.injEq] at h
    subst h
    simp [embeddedValues]
  | d :: r, seen, s, h => by
    unfold checkValues at h
    cases hc : checkDigests d.value seen with
    | panic => simp [hc] at h
    | err e => simp [hc] at h
    | ok s1 =>
      simp only [hc] at h
      obtain ⟨e1, e2, e3, e4, e5⟩ := checkDigests_ok d.value seen s1 hc
      obtain ⟨f1, f2, f3, f4⟩ := checkValues_spec r s1 s h
      obtain ⟨g1, g2, g3⟩ := compose_seen e1 e2 e3 f1 f2 f3
      refine ⟨by simpa [embeddedValues] using g1, by simpa [embeddedValues] using g2,
        by simpa [embeddedValues] using g3, ?_⟩
      intro d' hd'
      simp only [List.mem_cons] at hd'
      rcases hd' with rfl | hd'
      · exact ⟨e4, e5⟩
      · exact f4 d' hd'

/-- **What acceptance implies, globally (D17/D18 across payload and disclosures).** If the
restorer accepts, then — for the decoded disclosures `ds` — no `_sd` is a non-array and no
placeholder has extra members, anywhere in the payload or in ANY disclosure's value, and all
digests embedded in the payload and in all disclosure values together are pairwise distinct. -/
theorem restoreAll_ok_global (env : Env) (P : J) (L : List String) (r : J × List PathEntry)
    (h : restoreAll env P L = .ok r) :
    ∃ ds, decodeAll env L [] = .ok ds ∧ (embedded P ++ embeddedValues ds).Nodup ∧
      hasBadSd P = false ∧ hasBadPlaceholder P = false ∧
      ∀ d ∈ ds, hasBadSd d.value = false ∧ hasBadPlaceholder d.value = false := by
  unfold restoreAll at h
  cases hd : decodeAll env L [] with
  | panic => simp [hd] at h
  | err e => simp [hd] at h
  | ok ds =>
    simp only [hd] at h
    refine ⟨ds, rfl, ?_⟩
    unfold restoreDecoded at h
    cases hc : checkDigests P [] with
    | panic => simp [hc] at h
    | err e => simp [hc] at h
    | ok seen =>
      simp only [hc] at h
      cases hv : checkValues ds seen with
      | panic => simp [hv] at h
      | err e => simp [hv] at h
      | ok s =>
        obtain ⟨e1, _, e3, e4, e5⟩ := checkDigests_ok P [] seen hc
        obtain ⟨f1, f2, f3, f4⟩ := checkValues_spec ds seen s hv
        simp only [List.nil_append] at e1
        subst e1
        refine ⟨?_, e4, e5, f4⟩
        rw [List.nodup_append]
        refine ⟨e3, f3, ?_⟩
        intro a ha b hb hab
        subst hab
        exact f2 a hb ha

end Impl
