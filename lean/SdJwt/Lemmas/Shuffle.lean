import SdJwt.Lemmas.SdOrder
import SdJwt.Lemmas.View
import SdJwt.Impl.Restore
/-!
# `shuffle_digests` in the model

`shuffleJ σ` is the issuer's `shuffle_digests` with the random permutation made a parameter: in every object
the `_sd` member, if it is an array, is replaced by `σ` of it, and every member value and every array element is visited
(the entries of an `_sd` list are visited before the list is permuted here, after it in the crate: for
the strings a digest list holds the visit changes nothing either way). `shuffle_payload`: applied to the payload of a conformant tree it yields the payload of a tree that
differs only in the order of the digest lists visible in the payload (`sdPermVis`) — whatever `σ` is, as
long as it returns a permutation of its argument.
-/
open Assoc Spec

namespace Impl

mutual
def shuffleJ (σ : List J → List J) : J → J
  | .obj ms => .obj (shuffleMems σ ms)
  | .arr xs => .arr (shuffleElems σ xs)
  | j => j
def shuffleMems (σ : List J → List J) : List (String × J) → List (String × J)
  | [] => []
  | (k, v) :: r =>
    (k, if k = "_sd" then
          (match v with
           | .arr xs => .arr (σ (shuffleElems σ xs))
           | other => shuffleJ σ other)
        else shuffleJ σ v) :: shuffleMems σ r
def shuffleElems (σ : List J → List J) : List J → List J
  | [] => []
  | x :: r => shuffleJ σ x :: shuffleElems σ r
end

theorem shuffleElems_strs (σ : List J → List J) : (ds : List String) → shuffleElems σ (ds.map .str) = ds.map .str
  | [] => by rw [List.map_nil, shuffleElems]
  | d :: r => by
    rw [List.map_cons, shuffleElems, shuffleElems_strs σ r, shuffleJ.eq_def]

theorem strsOf_map (ds : List String) : strsOf (ds.map .str) = ds := by
  induction ds with
  | nil => rfl
  | cons d r ih => simp [strsOf, ih]

theorem strsOf_eq_filterMap : (l : List J) → strsOf l = l.filterMap J.asStr
  | [] => rfl
  | x :: r => by cases x <;> simp [strsOf, J.asStr, List.filterMap_cons, strsOf_eq_filterMap r]

theorem filterMap_asStr_map : (ds : List String) → (ds.map J.str).filterMap J.asStr = ds
  | [] => rfl
  | d :: r => by simp [List.filterMap_cons, J.asStr, filterMap_asStr_map r]

theorem map_strsOf_of_all_str : (l : List J) → (∀ x ∈ l, ∃ s, x = J.str s) → (strsOf l).map J.str = l
  | [], _ => rfl
  | x :: r, h => by
    obtain ⟨s, rfl⟩ := h x (by simp)
    simp [strsOf, map_strsOf_of_all_str r (fun y hy => h y (by simp [hy]))]

/-- a permutation of a list of strings is a list of strings: the same ones in another order -/
theorem perm_of_strs (l : List J) (ds : List String) (h : l.Perm (ds.map J.str)) :
    ∃ ds' : List String, l = ds'.map J.str ∧ ds'.Perm ds := by
  refine ⟨strsOf l, ?_, ?_⟩
  · apply (map_strsOf_of_all_str l ?_).symm
    intro x hx
    obtain ⟨s, _, rfl⟩ := List.mem_map.mp (h.mem_iff.mp hx)
    exact ⟨s, rfl⟩
  · rw [strsOf_eq_filterMap]
    have := h.filterMap J.asStr
    rwa [filterMap_asStr_map] at this

/-- visiting the members of an object whose names are not `_sd` -/
theorem shuffleMems_no_sd (σ : List J → List J) : (l : List (String × J)) → (∀ p ∈ l, p.1 ≠ "_sd") →
    shuffleMems σ l = l.map (fun p => (p.1, shuffleJ σ p.2))
  | [], _ => by rw [shuffleMems]; rfl
  | (k, v) :: r, h => by
    have hk : k ≠ "_sd" := h (k, v) (by simp)
    rw [shuffleMems.eq_def]
    simp only [if_neg hk, shuffleMems_no_sd σ r (fun p hp => h p (by simp [hp])), List.map_cons]

theorem map_ains_new (g : String → J → J) (k : String) (v : J) :
    (l : List (String × J)) → (∀ p ∈ l, p.1 ≠ k) →
    (ains k v l).map (fun p => (p.1, g p.1 p.2)) = ains k (g k v) (l.map (fun p => (p.1, g p.1 p.2)))
  | [], _ => by simp [ains]
  | (k', v') :: r, h => by
    have hne : k' ≠ k := h (k', v') (by simp)
    by_cases h1 : k < k'
    · simp [ains, h1]
    · have h2 : k ≠ k' := fun e => hne e.symm
      simp only [ains, h1, h2, if_false, List.map_cons]
      rw [map_ains_new g k v r (fun p hp => h p (by simp [hp]))]

theorem shuffleMems_ains_sd (σ : List J → List J) (xs : List J) :
    (l : List (String × J)) → (∀ p ∈ l, p.1 ≠ "_sd") →
    shuffleMems σ (ains "_sd" (.arr xs) l) =
      ains "_sd" (.arr (σ (shuffleElems σ xs))) (l.map (fun p => (p.1, shuffleJ σ p.2)))
  | [], _ => by
    simp only [ains, List.map_nil]
    rw [shuffleMems.eq_def]
    simp [shuffleMems]
  | (k', v') :: r, h => by
    have hne : k' ≠ "_sd" := h (k', v') (by simp)
    by_cases h1 : "_sd" < k'
    · simp only [ains, h1, if_true, List.map_cons]
      rw [shuffleMems.eq_def]
      simp only [if_true]
      rw [shuffleMems_no_sd σ ((k', v') :: r) h]
      simp
    · have h2 : "_sd" ≠ k' := fun e => hne e.symm
      simp only [ains, h1, h2, if_false, List.map_cons]
      rw [shuffleMems.eq_def]
      simp only [if_neg hne]
      rw [shuffleMems_ains_sd σ xs r (fun p hp => h p (by simp [hp]))]

theorem MMems.hview_keys_ne (S : String → Bool) : (M : MMems) → M.WF → ∀ p ∈ M.hview S, p.1 ≠ "_sd"
  | .nil, _ => by simp [MMems.hview]
  | .clear k x r, wf => by
    intro p hp
    simp only [MMems.hview, List.mem_cons] at hp
    rcases hp with rfl | hp
    · exact wf.1
    · exact MMems.hview_keys_ne S r wf.2.2.2.2 p hp
  | .marked k g x r, wf => by
    intro p hp
    simp only [MMems.hview] at hp
    split at hp
    · simp only [List.mem_cons] at hp
      rcases hp with rfl | hp
      · exact wf.1
      · exact MMems.hview_keys_ne S r wf.2.2.2.2 p hp
    · exact MMems.hview_keys_ne S r wf.2.2.2.2 p hp

theorem shuffleJ_scalar (σ : List J → List J) (j : J) (h : J.scalar j) : shuffleJ σ j = j := by
  cases j <;> first | rfl | (simp [J.scalar] at h)

theorem shuffleJ_placeholder (σ : List J → List J) (g : String) : shuffleJ σ (placeholder g) = placeholder g := by
  simp only [placeholder]
  rw [shuffleJ.eq_def]
  simp only
  rw [shuffleMems.eq_def]
  simp [shuffleMems, shuffleJ]

mutual
/-- **the issuer's `shuffle_digests` on the claims it signs**: the result is the payload of a tree that differs
from the issued one only in the order of the digest lists visible in the payload -/
theorem MJ.shuffle_payload (σ : List J → List J) (hσ : ∀ l, (σ l).Perm l) :
    (T : MJ) → T.WF → ∃ T', T.sdPermVis T' ∧ shuffleJ σ T.payload = T'.payload
  | .leaf j, wf => ⟨.leaf j, rfl, shuffleJ_scalar σ j wf⟩
  | .arr xs, wf => by
    obtain ⟨ys, h1, h2⟩ := MElems.shuffle_hview σ hσ xs wf
    refine ⟨.arr ys, ⟨ys, rfl, h1⟩, ?_⟩
    simp only [MJ.payload, MJ.hview] at h2 ⊢
    rw [shuffleJ.eq_def]
    simp only [h2]
  | .obj ms none, wf => by
    obtain ⟨ms', h1, h2⟩ := MMems.shuffle_hview σ hσ ms wf.1
    refine ⟨.obj ms' none, ⟨ms', none, rfl, h1, trivial⟩, ?_⟩
    simp only [MJ.payload, MJ.hview, withSd]
    rw [shuffleJ.eq_def]
    simp only
    rw [shuffleMems_no_sd σ _ (MMems.hview_keys_ne _ ms wf.1), h2]
  | .obj ms (some ds), wf => by
    obtain ⟨ms', h1, h2⟩ := MMems.shuffle_hview σ hσ ms wf.1
    obtain ⟨ds', e1, e2⟩ := perm_of_strs (σ (ds.map J.str)) ds (hσ _)
    refine ⟨.obj ms' (some ds'), ⟨ms', some ds', rfl, h1, e2.symm⟩, ?_⟩
    simp only [MJ.payload, MJ.hview, withSd]
    rw [shuffleJ.eq_def]
    simp only
    rw [shuffleMems_ains_sd σ _ _ (MMems.hview_keys_ne _ ms wf.1), shuffleElems_strs, e1, h2]
theorem MElems.shuffle_hview (σ : List J → List J) (hσ : ∀ l, (σ l).Perm l) :
    (E : MElems) → E.WF → ∃ E', E.sdPermVis E' ∧
      shuffleElems σ (E.hview (fun _ => false)) = E'.hview (fun _ => false)
  | .nil, _ => ⟨.nil, rfl, by rw [MElems.hview, shuffleElems]⟩
  | .clear x r, wf => by
    obtain ⟨y, a1, a2⟩ := MJ.shuffle_payload σ hσ x wf.1
    obtain ⟨r', b1, b2⟩ := MElems.shuffle_hview σ hσ r wf.2
    refine ⟨.clear y r', ⟨y, r', rfl, a1, b1⟩, ?_⟩
    simp only [MElems.hview, MJ.payload] at a2 b2 ⊢
    rw [shuffleElems, a2, b2]
  | .marked g x r, wf => by
    obtain ⟨r', b1, b2⟩ := MElems.shuffle_hview σ hσ r wf.2
    refine ⟨.marked g x r', ⟨r', rfl, b1⟩, ?_⟩
    simp only [MElems.hview] at b2 ⊢
    simp only [Bool.false_eq_true, if_false]
    rw [shuffleElems, shuffleJ_placeholder, b2]
  | .decoy g r, wf => by
    obtain ⟨r', b1, b2⟩ := MElems.shuffle_hview σ hσ r wf
    refine ⟨.decoy g r', ⟨r', rfl, b1⟩, ?_⟩
    simp only [MElems.hview] at b2 ⊢
    rw [shuffleElems, shuffleJ_placeholder, b2]
theorem MMems.shuffle_hview (σ : List J → List J) (hσ : ∀ l, (σ l).Perm l) :
    (M : MMems) → M.WF → ∃ M', M.sdPermVis M' ∧
      (M.hview (fun _ => false)).map (fun p => (p.1, shuffleJ σ p.2)) = M'.hview (fun _ => false)
  | .nil, _ => ⟨.nil, rfl, by simp [MMems.hview]⟩
  | .clear k x r, wf => by
    obtain ⟨y, a1, a2⟩ := MJ.shuffle_payload σ hσ x wf.2.2.1
    obtain ⟨r', b1, b2⟩ := MMems.shuffle_hview σ hσ r wf.2.2.2.2
    refine ⟨.clear k y r', ⟨y, r', rfl, a1, b1⟩, ?_⟩
    simp only [MMems.hview, MJ.payload, List.map_cons] at a2 b2 ⊢
    rw [a2, b2]
  | .marked k g x r, wf => by
    obtain ⟨r', b1, b2⟩ := MMems.shuffle_hview σ hσ r wf.2.2.2.2
    refine ⟨.marked k g x r', ⟨r', rfl, b1⟩, ?_⟩
    simp only [MMems.hview, Bool.false_eq_true, if_false] at b2 ⊢
    exact b2
end

end Impl
