import SdJwt.Impl.Restore
import SdJwt.Impl.Parts
/-! Totality (no `panic` outcome) of the modelled string splitters and of restoration. -/
open Assoc Outcome
namespace Impl

theorem splitOn_ne_nil (c : Char) (s : List Char) : splitOn c s ≠ [] := by
  induction s with
  | nil => simp [splitOn]
  | cons x xs ih =>
    simp only [splitOn]
    split
    · simp
    · split <;> simp

theorem sdJwtParts_noPanic (s : List Char) : (sdJwtParts s).NoPanic := by
  unfold sdJwtParts
  have := splitOn_ne_nil '~' s
  cases h : splitOn '~' s with
  | nil => exact absurd h this
  | cons a r => simp [NoPanic]

theorem getJwtPart_noPanic (s : List Char) (p : JwtPart) : (getJwtPart s p).NoPanic := by
  unfold getJwtPart
  split <;> simp [NoPanic]

theorem fromBase64_noPanic (env : Env) (s : String) : (fromBase64 env s).NoPanic := by
  unfold fromBase64
  split <;> try simp [NoPanic]
  split <;> try simp [NoPanic]
  split <;> simp [NoPanic]

theorem note_noPanic (seen : List String) (g : String) : (note seen g).NoPanic := by
  unfold note; split <;> simp [NoPanic]

theorem noteAll_noPanic : (gs seen : List String) → (noteAll gs seen).NoPanic
  | [], seen => by simp [noteAll, NoPanic]
  | g :: r, seen => by
    unfold noteAll
    have := note_noPanic seen g
    cases h : note seen g with
    | ok s' => simpa using noteAll_noPanic r s'
    | err e => simp [NoPanic]
    | panic => exact absurd h this

theorem phNote_noPanic (x : J) (seen : List String) : (phNote x seen).NoPanic := by
  unfold phNote
  split
  · split
    · split
      · simp [NoPanic]
      · split
        · exact note_noPanic _ _
        · simp [NoPanic]
    · simp [NoPanic]
  · simp [NoPanic]

theorem checkDigests_noPanic (j : J) (seen : List String) : (checkDigests j seen).NoPanic := by
  apply checkDigests.induct
    (motive_1 := fun ms seen => (checkDigests.checkM ms seen).NoPanic)
    (motive_2 := fun j seen => (checkDigests j seen).NoPanic)
    (motive_3 := fun xs seen => (checkDigests.checkL xs seen).NoPanic)
  all_goals (intros; simp_all [checkDigests, checkDigests.checkM, checkDigests.checkL, NoPanic])
  all_goals first | exact absurd ‹noteAll _ _ = Outcome.panic› (noteAll_noPanic _ _) | exact absurd ‹phNote _ _ = Outcome.panic› (phNote_noPanic _ _)

theorem sdContains_noPanic (sd : J) (g : String) : (sdContains sd g).NoPanic := by
  unfold sdContains; split <;> simp [NoPanic]

theorem ownSd_noPanic (d : Disc) (ms : List (String × J)) : (ownSd d ms).NoPanic := by
  unfold ownSd
  split
  · simp [NoPanic]
  · have := sdContains_noPanic ‹J› d.digest
    split
    · simp [NoPanic]
    · simp_all [NoPanic]
    · simp [NoPanic]
    · split
      · simp [NoPanic]
      · split <;> simp [NoPanic]

theorem elemHit_noPanic (d : Disc) (x : J) : (elemHit d x).NoPanic := by
  unfold elemHit
  split
  · split
    · split
      · simp [NoPanic]
      · split
        · split
          · split <;> simp [NoPanic]
          · simp [NoPanic]
        · simp [NoPanic]
    · simp [NoPanic]
  · simp [NoPanic]

theorem restoreOne_noPanic (d : Disc) (p : String) (j : J) : (restoreOne d p j).NoPanic := by
  apply restoreOne.induct d
    (motive_1 := fun p ms => (restoreOne.restoreM d p ms).NoPanic)
    (motive_2 := fun p j => (restoreOne d p j).NoPanic)
    (motive_3 := fun p i xs => (restoreOne.restoreL d p i xs).NoPanic)
  all_goals (intros; simp_all [restoreOne, restoreOne.restoreM, restoreOne.restoreL, NoPanic])
  all_goals first
    | exact absurd ‹ownSd _ _ = Outcome.panic› (ownSd_noPanic _ _)
    | exact absurd ‹elemHit _ _ = Outcome.panic› (elemHit_noPanic _ _)

theorem roundOnce_noPanic : (c : J) → (ds : List Disc) → (roundOnce c ds).NoPanic
  | c, [] => by simp [roundOnce, NoPanic]
  | c, d :: r => by
    unfold roundOnce
    have h1 := restoreOne_noPanic d "" c
    cases h : restoreOne d "" c with
    | panic => exact absurd h h1
    | err e => simp [NoPanic]
    | ok x =>
      obtain ⟨c', found, ps⟩ := x
      have h2 := roundOnce_noPanic c' r
      cases h' : roundOnce c' r with
      | panic => exact absurd h' h2
      | err e => simp [NoPanic, h']
      | ok y => obtain ⟨c'', un, ps'⟩ := y; simp [NoPanic, h']

theorem rounds_noPanic : (n : Nat) → (c : J) → (ds : List Disc) → (acc : List PathEntry) →
    (rounds n c ds acc).NoPanic
  | 0, c, ds, acc => by simp [rounds, NoPanic]
  | n+1, c, ds, acc => by
    unfold rounds
    split
    · simp [NoPanic]
    · have h1 := roundOnce_noPanic c ds
      cases h : roundOnce c ds with
      | panic => exact absurd h h1
      | err e => simp [NoPanic]
      | ok x =>
        obtain ⟨c', un, ps⟩ := x
        simp only
        split
        · simp [NoPanic]
        · exact rounds_noPanic n c' un _

theorem checkValues_noPanic : (ds : List Disc) → (seen : List String) → (checkValues ds seen).NoPanic
  | [], seen => by simp [checkValues, NoPanic]
  | d :: r, seen => by
    unfold checkValues
    have h1 := checkDigests_noPanic d.value seen
    cases h : checkDigests d.value seen with
    | panic => exact absurd h h1
    | err e => simp [NoPanic]
    | ok s' => exact checkValues_noPanic r s'

theorem restoreDecoded_noPanic (c : J) (ds : List Disc) : (restoreDecoded c ds).NoPanic := by
  unfold restoreDecoded
  have h1 := checkDigests_noPanic c []
  cases h : checkDigests c [] with
  | panic => exact absurd h h1
  | err e => simp [NoPanic]
  | ok seen =>
    have h2 := checkValues_noPanic ds seen
    cases h' : checkValues ds seen with
    | panic => exact absurd h' h2
    | err e => simp [NoPanic, h']
    | ok s' => simp only [h']; exact rounds_noPanic _ _ _ _

theorem decodeAll_noPanic (env : Env) : (ss : List String) → (acc : List Disc) →
    (decodeAll env ss acc).NoPanic
  | [], acc => by simp [decodeAll, NoPanic]
  | s :: r, acc => by
    unfold decodeAll
    have h1 := fromBase64_noPanic env s
    cases h : fromBase64 env s with
    | panic => exact absurd h h1
    | err e => simp [NoPanic]
    | ok d =>
      simp only
      split
      · simp [NoPanic]
      · exact decodeAll_noPanic env r _

theorem restoreAll_noPanic (env : Env) (c : J) (ss : List String) : (restoreAll env c ss).NoPanic := by
  unfold restoreAll
  have h1 := decodeAll_noPanic env ss []
  cases h : decodeAll env ss [] with
  | panic => exact absurd h h1
  | err e => simp [NoPanic]
  | ok ds => exact restoreDecoded_noPanic c ds

end Impl
