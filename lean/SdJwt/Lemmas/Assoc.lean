import SdJwt.Data.J
/-! Order facts about `String.<` and the sorted association lists. Helper lemmas only. -/
namespace Assoc
variable {α : Type}

theorem slt_irrefl (a : String) : ¬ a < a := by
  have := String.not_le (a := a) (b := a); simp_all [String.le_refl]

theorem slt_trans {a b c : String} (h1 : a < b) (h2 : b < c) : a < c := by
  have h1' := String.not_le.mpr h1
  have h2' := String.not_le.mpr h2
  apply String.not_le.mp
  intro h
  have hab : a ≤ b := by
    rcases String.le_total a b with h | h
    · exact h
    · exact absurd h h1'
  exact h2' (String.le_trans h hab)

theorem slt_asymm {a b : String} (h1 : a < b) : ¬ b < a := by
  intro h2; exact slt_irrefl a (slt_trans h1 h2)

theorem slt_ne {a b : String} (h : a < b) : a ≠ b := fun e => slt_irrefl a (e ▸ h)

theorem slt_tri (a b : String) : a < b ∨ a = b ∨ b < a := by
  by_cases h1 : a < b
  · exact Or.inl h1
  · by_cases h2 : b < a
    · exact Or.inr (Or.inr h2)
    · have h1' : b ≤ a := String.not_lt.mp h1
      have h2' : a ≤ b := String.not_lt.mp h2
      exact Or.inr (Or.inl (String.le_antisymm h2' h1'))

theorem AllGt.mono {k k' : String} {l : List (String × α)} (h : k' < k) (hg : AllGt k l) :
    AllGt k' l := by
  induction l with
  | nil => trivial
  | cons a r ih => exact ⟨slt_trans h hg.1, ih hg.2⟩

theorem allGt_iff {k : String} {l : List (String × α)} : AllGt k l ↔ ∀ p ∈ l, k < p.1 := by
  induction l with
  | nil => simp [AllGt]
  | cons a r ih => obtain ⟨k', v'⟩ := a; simp [AllGt, ih]

theorem aget_of_allGt {k : String} {l : List (String × α)} (hg : AllGt k l) : aget k l = none := by
  induction l with
  | nil => rfl
  | cons a r ih =>
    obtain ⟨k', v'⟩ := a
    have : k ≠ k' := fun e => slt_irrefl k (e ▸ hg.1)
    simp [aget, this, ih hg.2]

theorem ains_of_allGt {k : String} {v : α} {l : List (String × α)} (hg : AllGt k l) :
    ains k v l = (k, v) :: l := by
  cases l with
  | nil => rfl
  | cons a r => obtain ⟨k', v'⟩ := a; simp [ains, hg.1]

theorem ains_cons_lt {k k' : String} (v v' : α) (l : List (String × α)) (h : k' < k) :
    ains k v ((k', v') :: l) = (k', v') :: ains k v l := by
  have h1 : ¬ k < k' := slt_asymm h
  have h2 : k ≠ k' := fun e => slt_irrefl k (e ▸ h)
  simp [ains, h1, h2]

theorem aget_ains_self (k : String) (v : α) : (l : List (String × α)) → aget k (ains k v l) = some v
  | [] => by simp [ains, aget]
  | (k', v') :: r => by
      unfold ains
      split
      · simp [aget]
      · split
        · simp [aget]
        · rename_i h1 h2; simp [aget, h2, aget_ains_self k v r]

theorem aget_ains_ne {k k0 : String} (v : α) (h : k0 ≠ k) :
    (l : List (String × α)) → aget k0 (ains k v l) = aget k0 l
  | [] => by simp [ains, aget, h]
  | (k', v') :: r => by
      unfold ains
      split
      · simp [aget, h]
      · split
        · rename_i h1 h2; subst h2; simp [aget, h]
        · simp [aget, aget_ains_ne v h r]

theorem allGt_ains {k0 k : String} {v : α} (h : k0 < k) :
    (l : List (String × α)) → AllGt k0 l → AllGt k0 (ains k v l)
  | [], _ => ⟨h, trivial⟩
  | (k', v') :: r, hg => by
      unfold ains
      split
      · exact ⟨h, hg⟩
      · split
        · exact ⟨h, hg.2⟩
        · exact ⟨hg.1, allGt_ains h r hg.2⟩

theorem sorted_ains (k : String) (v : α) :
    (l : List (String × α)) → Sorted l → Sorted (ains k v l)
  | [], _ => ⟨trivial, trivial⟩
  | (k', v') :: r, hs => by
      unfold ains
      split
      · rename_i h; exact ⟨⟨h, AllGt.mono h hs.1⟩, hs⟩
      · split
        · rename_i h1 h2; subst h2; exact ⟨hs.1, hs.2⟩
        · rename_i h1 h2
          have hlt : k' < k := by
            rcases slt_tri k k' with h | h | h
            · exact absurd h h1
            · exact absurd h h2
            · exact h
          exact ⟨allGt_ains hlt r hs.1, sorted_ains k v r hs.2⟩

theorem aget_adel_self {k : String} : (l : List (String × α)) → Sorted l → aget k (adel k l) = none
  | [], _ => rfl
  | (k', v') :: r, hs => by
      unfold adel
      split
      · rename_i h; subst h; exact aget_of_allGt hs.1
      · rename_i h; simp [aget, h, aget_adel_self r hs.2]

theorem aget_adel_ne {k k0 : String} (h : k0 ≠ k) :
    (l : List (String × α)) → aget k0 (adel k l) = aget k0 l
  | [] => rfl
  | (k', v') :: r => by
      unfold adel
      split
      · rename_i h2; subst h2; simp [aget, h]
      · simp [aget, aget_adel_ne h r]

theorem allGt_adel {k0 k : String} : (l : List (String × α)) → AllGt k0 l → AllGt k0 (adel k l)
  | [], _ => trivial
  | (k', v') :: r, hg => by
      unfold adel
      split
      · exact hg.2
      · exact ⟨hg.1, allGt_adel r hg.2⟩

theorem sorted_adel (k : String) : (l : List (String × α)) → Sorted l → Sorted (adel k l)
  | [], _ => trivial
  | (k', v') :: r, hs => by
      unfold adel
      split
      · exact hs.2
      · exact ⟨allGt_adel r hs.1, sorted_adel k r hs.2⟩

theorem adel_of_aget_none {k : String} : (l : List (String × α)) → aget k l = none → adel k l = l
  | [], _ => rfl
  | (k', v') :: r, h => by
      simp only [aget] at h
      split at h
      · simp at h
      · rename_i hne; simp [adel, hne, adel_of_aget_none r h]

/-- removing a member and inserting it back gives the map back -/
theorem ains_adel {k : String} {v : α} : (l : List (String × α)) → Sorted l → aget k l = some v →
    ains k v (adel k l) = l
  | [], _, h => by simp [aget] at h
  | (k', v') :: r, hs, h => by
      simp only [aget] at h
      split at h
      · rename_i he; subst he; simp at h; subst h
        simp [adel, ains_of_allGt hs.1]
      · rename_i hne
        have hlt : k' < k := by
          rcases slt_tri k k' with h1 | h1 | h1
          · -- k < k' but k is in r whose keys are > k'
            exfalso
            have : aget k r = none := aget_of_allGt (AllGt.mono h1 hs.1)
            simp [this] at h
          · exact absurd h1 hne
          · exact h1
        simp [adel, hne, ains_cons_lt _ _ _ hlt, ains_adel r hs.2 h]

/-- inserting a fresh member and removing it again gives the map back -/
theorem adel_ains {k : String} {v : α} : (l : List (String × α)) → aget k l = none →
    adel k (ains k v l) = l
  | [], _ => by simp [ains, adel]
  | (k', v') :: r, h => by
      simp only [aget] at h
      split at h
      · simp at h
      · rename_i hne
        unfold ains
        split
        · simp [adel]
        · simp [hne, adel, adel_ains r h]

end Assoc
