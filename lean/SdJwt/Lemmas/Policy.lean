import SdJwt.Impl.Validation
/-! Helper lemmas for C11 / C04: builder algebra and the enforcement equivalence. -/
open Assoc
namespace Impl

/-- which setting a step names -/
inductive Field where
  | required | leeway | validateExp | aud | iss | sub | alg
  deriving DecidableEq, Repr

def Step.field : Step → Field
  | .withoutExpiry => .validateExp
  | .withAudience _ => .aud
  | .withIssuer _ => .iss
  | .withSubject _ => .sub
  | .withLeeway _ => .leeway
  | .withAlgorithm _ => .alg
  | .withRequiredClaim _ => .required

/-- projection of one field (into a common carrier, so that fields can be quantified over) -/
def proj (f : Field) (v : Validation) : (Option (List String)) × Nat × Bool × Option String × Alg :=
  match f with
  | .required => (v.required, 0, false, none, .RS256)
  | .leeway => (none, v.leeway, false, none, .RS256)
  | .validateExp => (none, 0, v.validateExp, none, .RS256)
  | .aud => (v.aud, 0, false, none, .RS256)
  | .iss => (none, 0, false, v.iss, .RS256)
  | .sub => (none, 0, false, v.sub, .RS256)
  | .alg => (none, 0, false, none, v.alg)

theorem proj_step_other (f : Field) (v : Validation) (s : Step) (h : s.field ≠ f) :
    proj f (v.step s) = proj f v := by
  cases f <;> cases s <;> simp_all [proj, Validation.step, Step.field]

theorem proj_step_congr (f : Field) (v w : Validation) (s : Step) (h : proj f v = proj f w) :
    proj f (v.step s) = proj f (w.step s) := by
  cases f <;> cases s <;> simp_all [proj, Validation.step]

theorem proj_foldl_congr (f : Field) : (l : List Step) → (a b : Validation) → proj f a = proj f b →
    proj f (l.foldl Validation.step a) = proj f (l.foldl Validation.step b)
  | [], _, _, h => h
  | t :: l, a, b, h => proj_foldl_congr f l _ _ (proj_step_congr f a b t h)

theorem bind_ok_iff {α β : Type} (a : Outcome α) (f : α → Outcome β) (b : β) :
    a.bind f = .ok b ↔ ∃ x, a = .ok x ∧ f x = .ok b := by
  cases a <;> simp [Outcome.bind]

theorem bind_ok_unit (a b : Outcome Unit) :
    (a.bind fun _ => b) = .ok () ↔ a = .ok () ∧ b = .ok () := by
  cases a <;> simp [Outcome.bind]

theorem strStep_ok (claims : List (String × J)) (name : String) (expected : Option String) :
    strStep claims name expected = .ok () ↔
      ∀ e, expected = some e → (aget name claims).bind J.asStr = some e := by
  unfold strStep
  cases expected with
  | none => simp
  | some e =>
    by_cases h : (aget name claims).bind J.asStr = some e <;> simp [h]

theorem reqStep_ok (o : JwtOpts) (claims : List (String × J)) :
    reqStep o claims = .ok () ↔ ∀ l, o.required = some l → ∀ c ∈ l, (aget c claims).isSome = true := by
  unfold reqStep
  cases o.required with
  | none => simp
  | some l =>
    by_cases h : l.all (fun c => (aget c claims).isSome) = true
    · simp only [h, if_true, true_iff]
      intro l' hl c hc
      simp at hl; subst hl
      exact List.all_eq_true.mp h c hc
    · simp only [h]
      simp only [Bool.false_eq_true, if_false]
      constructor
      · intro hh; cases hh
      · intro hh
        exact absurd (List.all_eq_true.mpr (hh l rfl)) h

theorem mem_strList_any (xs : List String) (exp : List String) :
    xs.any (fun a => exp.contains a) = true ↔ ∃ a ∈ xs, a ∈ exp := by
  simp [List.any_eq_true]

theorem audStep_ok (o : JwtOpts) (claims : List (String × J)) :
    audStep o claims = .ok () ↔ ∀ exp, o.audiences = some exp →
      (∃ a, aget "aud" claims = some (.str a) ∧ a ∈ exp) ∨
      (∃ xs, aget "aud" claims = some (.arr xs) ∧ ∃ a ∈ strList xs, a ∈ exp) := by
  unfold audStep
  cases o.audiences with
  | none => simp
  | some exp =>
    simp only [Option.some.injEq, forall_eq']
    cases hc : aget "aud" claims with
    | none => simp
    | some j =>
      cases j with
      | str a => by_cases h : a ∈ exp <;> simp [h]
      | arr xs =>
        by_cases h : (strList xs).any (fun a => exp.contains a) = true
        · simp only [h, if_true, true_iff]
          right
          exact ⟨xs, rfl, (mem_strList_any _ _).mp h⟩
        · simp only [h]
          simp only [Bool.false_eq_true, if_false]
          constructor
          · intro hh; cases hh
          · intro hh
            rcases hh with ⟨a, ha, _⟩ | ⟨xs', hx, hm⟩
            · cases ha
            · simp at hx; subst hx
              exact absurd ((mem_strList_any _ _).mpr hm) h
      | null => simp
      | bool b => simp
      | num m e => simp
      | obj ms => simp

theorem expStep_ok (o : JwtOpts) (claims : List (String × J)) (now : Nat)
    (hno : o.validateExp = true → ∀ ts, (aget "exp" claims).bind asU64 = some ts → ts + o.leeway < u64Max) :
    expStep o claims now = .ok () ↔
      (o.validateExp = true → ∃ ts, (aget "exp" claims).bind asU64 = some ts ∧ now ≤ ts + o.leeway) := by
  unfold expStep
  by_cases he : o.validateExp = true
  · simp only [he, if_true, true_implies]
    cases hx : (aget "exp" claims).bind asU64 with
    | none => simp
    | some ts =>
      have h1 : ¬ (ts + o.leeway ≥ u64Max) := by have := hno he ts hx; omega
      simp only [h1, if_false]
      by_cases hle : now ≤ ts + o.leeway <;> simp [hle]
  · simp [he]

theorem nbfStep_ok (o : JwtOpts) (claims : List (String × J)) (now : Nat)
    (hno : o.validateNbf = true → ∀ ts, (aget "nbf" claims).bind asU64 = some ts → o.leeway ≤ ts) :
    nbfStep o claims now = .ok () ↔
      (o.validateNbf = true → ∃ ts, (aget "nbf" claims).bind asU64 = some ts ∧ ts ≤ now + o.leeway) := by
  unfold nbfStep
  by_cases he : o.validateNbf = true
  · simp only [he, if_true, true_implies]
    cases hx : (aget "nbf" claims).bind asU64 with
    | none => simp
    | some ts =>
      have h0 := hno he ts hx
      have h1 : ¬ (ts < o.leeway) := by omega
      simp only [h1, if_false]
      by_cases hle : now ≥ ts - o.leeway
      · simp only [hle, if_true, true_iff]
        exact ⟨ts, rfl, by omega⟩
      · simp only [hle, if_false]
        constructor
        · intro hh; cases hh
        · rintro ⟨ts', hts, hle'⟩
          simp at hts; subst hts
          omega
  · simp [he]

/-- the configured constraints, spelled out (the specification side) -/
structure Holds (v : Validation) (claims : List (String × J)) (now : Nat) : Prop where
  exp : v.validateExp = true → ∃ ts, (aget "exp" claims).bind asU64 = some ts ∧ now ≤ ts + v.leeway
  nbf : v.validateNbf = true → ∃ ts, (aget "nbf" claims).bind asU64 = some ts ∧ ts ≤ now + v.leeway
  iss : ∀ e, v.iss = some e → (aget "iss" claims).bind J.asStr = some e
  sub : ∀ e, v.sub = some e → (aget "sub" claims).bind J.asStr = some e
  aud : ∀ exp, v.aud = some exp →
    (∃ a, aget "aud" claims = some (.str a) ∧ a ∈ exp) ∨
    (∃ xs, aget "aud" claims = some (.arr xs) ∧ ∃ a ∈ strList xs, a ∈ exp)
  required : ∀ l, v.required = some l → ∀ c ∈ l, (aget c claims).isSome = true

/-- outside the overflow region of D21 -/
def NoOverflow (v : Validation) (claims : List (String × J)) : Prop :=
  (v.validateExp = true → ∀ ts, (aget "exp" claims).bind asU64 = some ts → ts + v.leeway < u64Max) ∧
  (v.validateNbf = true → ∀ ts, (aget "nbf" claims).bind asU64 = some ts → v.leeway ≤ ts)

/-- Every configured setting is enforced: the claims checks accept exactly when all configured
constraints hold (subject included — D13). -/
theorem validateClaims_ok_iff (v : Validation) (claims : List (String × J)) (now : Nat)
    (hno : NoOverflow v claims) :
    validateClaims (buildValidation v) claims now = .ok () ↔ Holds v claims now := by
  obtain ⟨hoe, hon⟩ := hno
  have e1 := expStep_ok (buildValidation v) claims now (by simpa [buildValidation] using hoe)
  have e2 := nbfStep_ok (buildValidation v) claims now (by simpa [buildValidation] using hon)
  have e3 := strStep_ok claims "iss" (buildValidation v).issuer
  have e4 := strStep_ok claims "sub" (buildValidation v).subject
  have e5 := audStep_ok (buildValidation v) claims
  have e6 := reqStep_ok (buildValidation v) claims
  simp only [buildValidation] at e1 e2 e3 e4 e5 e6
  simp only [validateClaims, bind_ok_unit, buildValidation]
  constructor
  · rintro ⟨h1, h2, h3, h4, h5, h6⟩
    exact ⟨e1.mp h1, e2.mp h2, e3.mp h3, e4.mp h4, e5.mp h5, e6.mp h6⟩
  · rintro ⟨h1, h2, h3, h4, h5, h6⟩
    exact ⟨e1.mpr h1, e2.mpr h2, e3.mpr h3, e4.mpr h4, e5.mpr h5, e6.mpr h6⟩

/-- the whole of `decode`: accepted iff the header names the configured algorithm, the key family
admits it and the signature primitive accepts, the payload is an object, and all configured
constraints hold. -/
theorem decodeDecision_ok_iff (v : Validation) (fam : KeyFam) (hdrAlg : JwtAlg) (sigOk : Bool)
    (claims : List (String × J)) (now : Nat) (hno : NoOverflow v claims) :
    decodeDecision v fam hdrAlg sigOk (.obj claims) now = .ok () ↔
      hdrAlg = toJwtAlgV v.alg ∧ famAllows fam hdrAlg = true ∧ sigOk = true ∧ Holds v claims now := by
  unfold decodeDecision
  have hc := validateClaims_ok_iff v claims now hno
  by_cases h1 : hdrAlg = toJwtAlgV v.alg
  · by_cases h2 : famAllows fam hdrAlg = true ∧ sigOk = true
    · obtain ⟨h2a, h2b⟩ := h2
      subst h1
      simp [buildValidation, h2a, h2b] at hc ⊢
      exact hc
    · have : ¬ (famAllows fam (toJwtAlgV v.alg) = true ∧ sigOk = true) := by rw [← h1]; exact h2
      simp only [buildValidation, h1, List.contains_cons, List.contains_nil, Bool.or_false, beq_self_eq_true,
        not_true_eq_false, if_false, this, not_false_eq_true, if_true, true_and]
      constructor
      · intro hh; cases hh
      · rintro ⟨a, b, _⟩; exact absurd ⟨a, b⟩ this
  · have hne : ([toJwtAlgV v.alg].contains hdrAlg) = false := by
      simp [List.contains_cons, h1]
    simp [buildValidation, hne, h1]


end Impl
