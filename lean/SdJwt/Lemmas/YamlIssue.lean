import SdJwt.Lemmas.Defined
import SdJwt.Lemmas.YamlParse
import SdJwt.Lemmas.Ancestry
/-!
# Issuing with the paths `parse_yaml` reports is defined

`T.ypaths []` lists, for a marked tree `T`, the JSON pointers of its marked nodes in `parse_yaml`'s
order (for a tagged key the paths below it first, then its own).  Here: these strings parse back
to the token addresses `T.yaddrs []`; every one of them reaches an existing member / element of
the plain claims `T.unmark` (index tokens are canonical decimals, which `usize::from_str` and
serde_json's `parse_index` read back as the index); and no later address is equal to or inside an
earlier one.  With `markAll_defined` this makes issuing from the parsed result succeed.
-/
open Assoc Spec Path
namespace Impl

/-! ### canonical decimals parse back as the index -/

theorem digitVal_of_isDigit (c : Char) (h : c.isDigit = true) : digitVal c = some (c.toNat - '0'.toNat) := by
  unfold digitVal
  have h' : '0' ≤ c ∧ c ≤ '9' := by
    simp only [Char.isDigit, Bool.and_eq_true, decide_eq_true_eq] at h
    exact ⟨Char.le_def.mpr (by simpa using h.1), Char.le_def.mpr (by simpa using h.2)⟩
  simp [h']

theorem parseDigits_digits : (ds : List Char) → (acc : Nat) → (∀ c ∈ ds, c.isDigit = true) →
    parseDigits ds acc = some (Nat.ofDigitChars 10 ds acc)
  | [], acc, _ => by simp [parseDigits]
  | c :: r, acc, h => by
    have hc := digitVal_of_isDigit c (h c (by simp))
    simp only [parseDigits, hc, Nat.ofDigitChars_cons]
    rw [parseDigits_digits r _ (fun x hx => h x (by simp [hx]))]
    congr 2
    omega

theorem toDigits_no_leading_zero (n : Nat) : ∀ c r, Nat.toDigits 10 n ≠ '0' :: c :: r := by
  induction n using Nat.base_induction 10 (by omega) with
  | single m hm =>
    intro c r h
    rw [Nat.toDigits_of_lt_base hm] at h
    simp at h
  | digit m k hk hm ih =>
    intro c r h
    rw [← Nat.toDigits_append_toDigits (by omega) hm hk, Nat.toDigits_of_lt_base hk] at h
    cases hd : Nat.toDigits 10 m with
    | nil => exact Nat.toDigits_ne_nil hd
    | cons a t =>
      rw [hd] at h
      simp only [List.cons_append, List.cons.injEq] at h
      obtain ⟨rfl, ht⟩ := h
      cases t with
      | nil =>
        have : Nat.ofDigitChars 10 (Nat.toDigits 10 m) 0 = m := Nat.ofDigitChars_ten_toDigits
        rw [hd] at this
        simp [Nat.ofDigitChars] at this
        omega
      | cons c' r' => exact ih c' r' hd

theorem plus_not_digit : ('+' : Char).isDigit = false := by decide

theorem parseUsize_of_ne_plus (a : Char) (t : List Char) (ha : a ≠ '+') (n : Nat)
    (hp : parseDigits (a :: t) 0 = some n) (hn : n < 2^64) : parseUsize (a :: t) = some n := by
  unfold parseUsize
  dsimp only
  split
  · rename_i r heq
    simp only [List.cons.injEq] at heq
    exact absurd heq.1 ha
  · simp [hp, hn]

theorem parseUsize_toDigits (i : Nat) (h : i < 2^64) : parseUsize (Nat.toDigits 10 i) = some i := by
  have hdig : ∀ c ∈ Nat.toDigits 10 i, c.isDigit = true :=
    fun c hc => Nat.isDigit_of_mem_toDigits (by omega) (by omega) hc
  cases hd : Nat.toDigits 10 i with
  | nil => exact absurd hd Nat.toDigits_ne_nil
  | cons a t =>
    have ha : a ≠ '+' := by
      intro e
      have := hdig a (by simp [hd])
      rw [e] at this
      simp [plus_not_digit] at this
    have hp := parseDigits_digits (a :: t) 0 (by rw [← hd]; exact hdig)
    have hv : Nat.ofDigitChars 10 (a :: t) 0 = i := by rw [← hd]; exact Nat.ofDigitChars_ten_toDigits
    rw [hv] at hp
    exact parseUsize_of_ne_plus a t ha i hp h

theorem parseIndex_toDigits (i : Nat) (h : i < 2^64) : parseIndex (Nat.toDigits 10 i) = some i := by
  have hdig : ∀ c ∈ Nat.toDigits 10 i, c.isDigit = true :=
    fun c hc => Nat.isDigit_of_mem_toDigits (by omega) (by omega) hc
  unfold parseIndex
  split
  · rename_i r heq
    have := hdig '+' (by simp [heq])
    simp [plus_not_digit] at this
  · rename_i c r heq
    exact absurd heq (toDigits_no_leading_zero i c r)
  · exact parseUsize_toDigits i h

/-- `usize::from_str` reads the decimal of an index below 2^64 as that index -/
theorem pU_toString (i : Nat) (h : i < 2^64) : pU (toString i) = some i := by
  unfold pU
  rw [show (toString i).toList = Nat.toDigits 10 i from Nat.toList_repr]
  exact parseUsize_toDigits i h

/-- and so does serde_json's `parse_index` (no sign, no leading zero) -/
theorem pI_toString (i : Nat) (h : i < 2^64) : pI (toString i) = some i := by
  unfold pI
  rw [show (toString i).toList = Nat.toDigits 10 i from Nat.toList_repr]
  exact parseIndex_toDigits i h

end Impl

/-! ### the plain claims as a tree without marks -/

mutual
/-- the claims tree with every mark taken off (decoys dropped): the tree of the plain claims -/
def MJ.unmark : MJ → MJ
  | .leaf j => .leaf j
  | .arr xs => .arr xs.unmark
  | .obj ms _ => .obj ms.unmark none
def MElems.unmark : MElems → MElems
  | .nil => .nil
  | .clear x r => .clear x.unmark r.unmark
  | .marked _ x r => .clear x.unmark r.unmark
  | .decoy _ r => r.unmark
def MMems.unmark : MMems → MMems
  | .nil => .nil
  | .clear k x r => .clear k x.unmark r.unmark
  | .marked k _ x r => .clear k x.unmark r.unmark
end

mutual
/-- the token addresses of the marked nodes, in `parse_yaml`'s order -/
def MJ.yaddrs (toks : List String) : MJ → List (List String × String)
  | .leaf _ => []
  | .arr xs => xs.yaddrs toks 0
  | .obj ms _ => ms.yaddrs toks
def MElems.yaddrs (toks : List String) (i : Nat) : MElems → List (List String × String)
  | .nil => []
  | .clear x r => x.yaddrs (toks ++ [toString i]) ++ r.yaddrs toks (i+1)
  | .marked _ _ r => (toks, toString i) :: r.yaddrs toks (i+1)
  | .decoy _ r => r.yaddrs toks (i+1)
def MMems.yaddrs (toks : List String) : MMems → List (List String × String)
  | .nil => []
  | .clear k x r => x.yaddrs (toks ++ [k]) ++ r.yaddrs toks
  | .marked k _ x r => x.yaddrs (toks ++ [k]) ++ (toks, k) :: r.yaddrs toks
end

namespace Impl

mutual
theorem MJ.unmark_payload : (T : MJ) → T.unmark.payload = T.plain
  | .leaf j => rfl
  | .arr xs => by
    have := MElems.unmark_payload xs
    simp only [MJ.payload, MJ.plain] at this ⊢
    simp [MJ.unmark, MJ.hview, MJ.project, this]
  | .obj ms sd => by
    have := MMems.unmark_payload ms
    simp only [MJ.payload, MJ.plain] at this ⊢
    simp [MJ.unmark, MJ.hview, MJ.project, withSd, this]
theorem MElems.unmark_payload : (xs : MElems) →
    xs.unmark.hview (fun _ => false) = xs.project (fun _ => true)
  | .nil => rfl
  | .clear x r => by
    have h1 := MJ.unmark_payload x
    simp only [MJ.payload, MJ.plain] at h1
    simp [MElems.unmark, MElems.hview, MElems.project, h1, MElems.unmark_payload r]
  | .marked dg x r => by
    have h1 := MJ.unmark_payload x
    simp only [MJ.payload, MJ.plain] at h1
    simp [MElems.unmark, MElems.hview, MElems.project, h1, MElems.unmark_payload r]
  | .decoy dg r => by
    simp [MElems.unmark, MElems.project, MElems.unmark_payload r]
theorem MMems.unmark_payload : (ms : MMems) →
    ms.unmark.hview (fun _ => false) = ms.project (fun _ => true)
  | .nil => rfl
  | .clear k x r => by
    have h1 := MJ.unmark_payload x
    simp only [MJ.payload, MJ.plain] at h1
    simp [MMems.unmark, MMems.hview, MMems.project, h1, MMems.unmark_payload r]
  | .marked k dg x r => by
    have h1 := MJ.unmark_payload x
    simp only [MJ.payload, MJ.plain] at h1
    simp [MMems.unmark, MMems.hview, MMems.project, h1, MMems.unmark_payload r]
end

theorem unmark_keysGt (k0 : String) : (ms : MMems) → ms.keysGt k0 → ms.unmark.keysGt k0
  | .nil, _ => trivial
  | .clear k x r, h => ⟨h.1, unmark_keysGt k0 r h.2⟩
  | .marked k dg x r, h => ⟨h.1, unmark_keysGt k0 r h.2⟩

theorem unmark_marks : (ms : MMems) → ms.unmark.marks = []
  | .nil => rfl
  | .clear k x r => by simpa [MMems.unmark, MMems.marks] using unmark_marks r
  | .marked k dg x r => by simpa [MMems.unmark, MMems.marks] using unmark_marks r

mutual
theorem MJ.unmark_wf : (T : MJ) → T.WF → T.unmark.WF
  | .leaf j, h => h
  | .arr xs, h => by
    simp only [MJ.WF] at h
    simpa [MJ.unmark, MJ.WF] using MElems.unmark_wf xs h
  | .obj ms sd, h => by
    simp only [MJ.WF] at h
    simp only [MJ.unmark, MJ.WF, unmark_marks]
    exact ⟨MMems.unmark_wf ms h.1, by simp, by simp⟩
theorem MElems.unmark_wf : (xs : MElems) → xs.WF → xs.unmark.WF
  | .nil, _ => trivial
  | .clear x r, h => ⟨MJ.unmark_wf x h.1, MElems.unmark_wf r h.2⟩
  | .marked dg x r, h => ⟨MJ.unmark_wf x h.1, MElems.unmark_wf r h.2⟩
  | .decoy dg r, h => MElems.unmark_wf r h
theorem MMems.unmark_wf : (ms : MMems) → ms.WF → ms.unmark.WF
  | .nil, _ => trivial
  | .clear k x r, h => ⟨h.1, h.2.1, MJ.unmark_wf x h.2.2.1, unmark_keysGt k r h.2.2.2.1, MMems.unmark_wf r h.2.2.2.2⟩
  | .marked k dg x r, h => ⟨h.1, h.2.1, MJ.unmark_wf x h.2.2.1, unmark_keysGt k r h.2.2.2.1, MMems.unmark_wf r h.2.2.2.2⟩
end

mutual
theorem MJ.unmark_digests : (T : MJ) → T.unmark.digests = []
  | .leaf j => rfl
  | .arr xs => by simpa [MJ.unmark, MJ.digests] using MElems.unmark_digests xs
  | .obj ms sd => by simpa [MJ.unmark, MJ.digests] using MMems.unmark_digests ms
theorem MElems.unmark_digests : (xs : MElems) → xs.unmark.digests = []
  | .nil => rfl
  | .clear x r => by simp [MElems.unmark, MElems.digests, MJ.unmark_digests x, MElems.unmark_digests r]
  | .marked dg x r => by simp [MElems.unmark, MElems.digests, MJ.unmark_digests x, MElems.unmark_digests r]
  | .decoy dg r => by simpa [MElems.unmark] using MElems.unmark_digests r
theorem MMems.unmark_digests : (ms : MMems) → ms.unmark.digests = []
  | .nil => rfl
  | .clear k x r => by simp [MMems.unmark, MMems.digests, MJ.unmark_digests x, MMems.unmark_digests r]
  | .marked k dg x r => by simp [MMems.unmark, MMems.digests, MJ.unmark_digests x, MMems.unmark_digests r]
end

/-! ### the reported path strings are the rendered addresses -/

theorem joinPath_render (toks : List String) (k : String) :
    joinPath (toks.map escapeSeg ++ [escapeSeg k]) = renderPath toks k := by
  rw [← joinPath_eq_renderPath]; simp

mutual
theorem MJ.ypaths_render : (T : MJ) → (toks : List String) →
    T.ypaths (toks.map escapeSeg) = (T.yaddrs toks).map (fun a => renderPath a.1 a.2)
  | .leaf _, _ => rfl
  | .arr xs, toks => by simpa [MJ.ypaths, MJ.yaddrs] using MElems.ypaths_render xs toks 0
  | .obj ms _, toks => by simpa [MJ.ypaths, MJ.yaddrs] using MMems.ypaths_render ms toks
theorem MElems.ypaths_render : (xs : MElems) → (toks : List String) → (i : Nat) →
    xs.ypaths (toks.map escapeSeg) i = (xs.yaddrs toks i).map (fun a => renderPath a.1 a.2)
  | .nil, _, _ => rfl
  | .clear x r, toks, i => by
    have h1 := MJ.ypaths_render x (toks ++ [toString i])
    rw [List.map_append, List.map_cons, List.map_nil, escapeSeg_index] at h1
    simp only [MElems.ypaths, MElems.yaddrs, List.map_append]
    rw [h1, MElems.ypaths_render r toks (i+1)]
  | .marked dg x r, toks, i => by
    have := joinPath_render toks (toString i)
    rw [escapeSeg_index] at this
    simp only [MElems.ypaths, MElems.yaddrs, List.map_cons]
    rw [this, MElems.ypaths_render r toks (i+1)]
  | .decoy dg r, toks, i => by
    simpa [MElems.ypaths, MElems.yaddrs] using MElems.ypaths_render r toks (i+1)
theorem MMems.ypaths_render : (ms : MMems) → (toks : List String) →
    ms.ypaths (toks.map escapeSeg) = (ms.yaddrs toks).map (fun a => renderPath a.1 a.2)
  | .nil, _ => rfl
  | .clear k x r, toks => by
    have h1 := MJ.ypaths_render x (toks ++ [k])
    simp only [List.map_append, List.map_cons, List.map_nil] at h1
    simp [MMems.ypaths, MMems.yaddrs, h1, MMems.ypaths_render r toks]
  | .marked k dg x r, toks => by
    have h1 := MJ.ypaths_render x (toks ++ [k])
    simp only [List.map_append, List.map_cons, List.map_nil] at h1
    simp [MMems.ypaths, MMems.yaddrs, h1, joinPath_render, MMems.ypaths_render r toks]
end

/-! ### every reported address reaches a node of the plain claims -/

/-- `(k, x)` is a member (clear or marked) -/
def _root_.MMems.Has (k : String) (x : MJ) : MMems → Prop
  | .nil => False
  | .clear k' x' r => (k' = k ∧ x' = x) ∨ r.Has k x
  | .marked k' _ x' r => (k' = k ∧ x' = x) ∨ r.Has k x

/-- `x` is the element at position `n` (no decoys before it) -/
def _root_.MElems.HasAt (x : MJ) : Nat → MElems → Prop
  | _, .nil => False
  | _, .decoy _ _ => False
  | 0, .clear x' _ => x' = x
  | 0, .marked _ x' _ => x' = x
  | n+1, .clear _ r => r.HasAt x n
  | n+1, .marked _ _ r => r.HasAt x n

mutual
/-- every array of the claims is shorter than 2^64 (what `usize` can index) -/
def _root_.MJ.Small : MJ → Prop
  | .leaf _ => True
  | .arr xs => elemCount xs < 2^64 ∧ xs.Small
  | .obj ms _ => ms.Small
def _root_.MElems.Small : MElems → Prop
  | .nil => True
  | .clear x r => x.Small ∧ r.Small
  | .marked _ x r => x.Small ∧ r.Small
  | .decoy _ r => r.Small
def _root_.MMems.Small : MMems → Prop
  | .nil => True
  | .clear _ x r => x.Small ∧ r.Small
  | .marked _ _ x r => x.Small ∧ r.Small
end

theorem keysGt_has (k0 k : String) (x : MJ) : (r : MMems) → r.keysGt k0 → r.Has k x → k0 < k
  | .nil, _, h => by simp [MMems.Has] at h
  | .clear k' x' r, hg, h => by
    rcases h with ⟨rfl, _⟩ | h
    · exact hg.1
    · exact keysGt_has k0 k x r hg.2 h
  | .marked k' dg x' r, hg, h => by
    rcases h with ⟨rfl, _⟩ | h
    · exact hg.1
    · exact keysGt_has k0 k x r hg.2 h

theorem slt_ne {a b : String} (h : a < b) : a ≠ b := by
  intro e; subst e; exact (String.lt_irrefl a) h

theorem has_getClear (k : String) (x : MJ) : (ms : MMems) → ms.WF → ms.Has k x →
    ms.unmark.getClear k = some x.unmark
  | .nil, _, h => by simp [MMems.Has] at h
  | .clear k' x' r, wf, h => by
    rcases h with ⟨rfl, rfl⟩ | h
    · simp [MMems.unmark, MMems.getClear]
    · have hne : k' ≠ k := slt_ne (keysGt_has k' k x r wf.2.2.2.1 h)
      simp [MMems.unmark, MMems.getClear, hne, has_getClear k x r wf.2.2.2.2 h]
  | .marked k' dg x' r, wf, h => by
    rcases h with ⟨rfl, rfl⟩ | h
    · simp [MMems.unmark, MMems.getClear]
    · have hne : k' ≠ k := slt_ne (keysGt_has k' k x r wf.2.2.2.1 h)
      simp [MMems.unmark, MMems.getClear, hne, has_getClear k x r wf.2.2.2.2 h]

theorem has_not_reserved (k : String) (x : MJ) : (ms : MMems) → ms.WF → ms.Has k x → k ≠ "_sd" ∧ k ≠ "..."
  | .nil, _, h => by simp [MMems.Has] at h
  | .clear k' x' r, wf, h => by
    rcases h with ⟨rfl, _⟩ | h
    · exact ⟨wf.1, wf.2.1⟩
    · exact has_not_reserved k x r wf.2.2.2.2 h
  | .marked k' dg x' r, wf, h => by
    rcases h with ⟨rfl, _⟩ | h
    · exact ⟨wf.1, wf.2.1⟩
    · exact has_not_reserved k x r wf.2.2.2.2 h

theorem hasAt_getClearAt (x : MJ) : (n : Nat) → (xs : MElems) → xs.HasAt x n →
    xs.unmark.getClearAt n = some x.unmark
  | _, .nil, h => by simp [MElems.HasAt] at h
  | 0, .decoy _ _, h => by simp [MElems.HasAt] at h
  | _+1, .decoy _ _, h => by simp [MElems.HasAt] at h
  | 0, .clear x' r, h => by simp only [MElems.HasAt] at h; subst h; simp [MElems.unmark, MElems.getClearAt]
  | 0, .marked dg x' r, h => by simp only [MElems.HasAt] at h; subst h; simp [MElems.unmark, MElems.getClearAt]
  | n+1, .clear x' r, h => by
    simp only [MElems.HasAt] at h
    simpa [MElems.unmark, MElems.getClearAt] using hasAt_getClearAt x n r h
  | n+1, .marked dg x' r, h => by
    simp only [MElems.HasAt] at h
    simpa [MElems.unmark, MElems.getClearAt] using hasAt_getClearAt x n r h

theorem hasAt_lt (x : MJ) : (n : Nat) → (xs : MElems) → xs.HasAt x n → n < elemCount xs
  | _, .nil, h => by simp [MElems.HasAt] at h
  | 0, .decoy _ _, h => by simp [MElems.HasAt] at h
  | _+1, .decoy _ _, h => by simp [MElems.HasAt] at h
  | 0, .clear x' r, _ => by simp [elemCount]
  | 0, .marked dg x' r, _ => by simp [elemCount]
  | n+1, .clear x' r, h => by
    simp only [MElems.HasAt] at h
    have := hasAt_lt x n r h
    simp only [elemCount]; omega
  | n+1, .marked dg x' r, h => by
    simp only [MElems.HasAt] at h
    have := hasAt_lt x n r h
    simp only [elemCount]; omega

/-- addresses below the node `x` of `R` reached by `toks` are addresses of `R` -/
def leads (toks : List String) (R x : MJ) : Prop :=
  ∀ r last, reaches r last x = true → reaches (toks ++ r) last R = true

theorem leads_nil (R : MJ) : leads [] R R := fun _ _ h => h

theorem leads_obj (toks : List String) (R : MJ) (ms : MMems) (sd : Option (List String)) (k : String) (c : MJ)
    (h : leads toks R (.obj ms sd)) (hc : ms.getClear k = some c) : leads (toks ++ [k]) R c := by
  intro r last hr
  have := h (k :: r) last (by simp [reaches, canonTok, MJ.child, hc, hr])
  simpa using this

theorem leads_arr (toks : List String) (R : MJ) (xs : MElems) (n : Nat) (c : MJ)
    (h : leads toks R (.arr xs)) (hc : xs.getClearAt n = some c) (hn : n < 2^64) :
    leads (toks ++ [toString n]) R c := by
  intro r last hr
  have hp : pI n.repr = some n := pI_toString n hn
  have := h (toString n :: r) last (by simp [reaches, canonTok, MJ.child, hp, hc, hr])
  simpa using this

mutual
theorem MJ.yreach : (x : MJ) → (toks : List String) → (R : MJ) → x.WF → x.YamlOK → x.Small →
    leads toks R x.unmark → ∀ a ∈ x.yaddrs toks, reaches a.1 a.2 R = true
  | .leaf _, _, _, _, _, _, _ => by simp [MJ.yaddrs]
  | .arr xs, toks, R, wf, hy, hs, hl => by
    simp only [MJ.WF] at wf
    simp only [MJ.YamlOK] at hy
    simp only [MJ.Small] at hs
    simp only [MJ.yaddrs]
    exact MElems.yreach xs toks R xs 0 wf hy hs.2 (fun x n h => by simpa using h) hs.1
      (by simpa [MJ.unmark] using hl)
  | .obj ms sd, toks, R, wf, hy, hs, hl => by
    simp only [MJ.WF] at wf
    simp only [MJ.YamlOK] at hy
    simp only [MJ.Small] at hs
    simp only [MJ.yaddrs]
    exact MMems.yreach ms toks R ms wf.1 wf.1 hy hs (fun _ _ h => h) (by simpa [MJ.unmark] using hl)
theorem MElems.yreach : (xs : MElems) → (toks : List String) → (R : MJ) → (all : MElems) → (i : Nat) →
    xs.WF → xs.YamlOK → xs.Small → (∀ x n, xs.HasAt x n → all.HasAt x (i + n)) → elemCount all < 2^64 →
    leads toks R (.arr all.unmark) → ∀ a ∈ xs.yaddrs toks i, reaches a.1 a.2 R = true
  | .nil, _, _, _, _, _, _, _, _, _, _ => by simp [MElems.yaddrs]
  | .decoy _ _, _, _, _, _, _, hy, _, _, _, _ => by simp [MElems.YamlOK] at hy
  | .clear x r, toks, R, all, i, wf, hy, hs, hsub, hc, hl => by
    intro a ha
    simp only [MElems.yaddrs, List.mem_append] at ha
    have h0 : all.HasAt x i := by simpa using hsub x 0 (by simp [MElems.HasAt])
    have hi : i < 2^64 := Nat.lt_trans (hasAt_lt x i all h0) hc
    rcases ha with ha | ha
    · exact MJ.yreach x (toks ++ [toString i]) R wf.1 hy.1 hs.1
        (leads_arr toks R all.unmark i x.unmark hl (hasAt_getClearAt x i all h0) hi) a ha
    · exact MElems.yreach r toks R all (i+1) wf.2 hy.2 hs.2
        (fun y n h => by have := hsub y (n+1) (by simpa [MElems.HasAt] using h); simpa [Nat.add_assoc, Nat.add_comm 1 n] using this)
        hc hl a ha
  | .marked dg x r, toks, R, all, i, wf, hy, hs, hsub, hc, hl => by
    intro a ha
    simp only [MElems.yaddrs, List.mem_cons] at ha
    have h0 : all.HasAt x i := by simpa using hsub x 0 (by simp [MElems.HasAt])
    have hi : i < 2^64 := Nat.lt_trans (hasAt_lt x i all h0) hc
    rcases ha with rfl | ha
    · have hp : pU i.repr = some i := pU_toString i hi
      have := hl [] (toString i) (by
        simp [reaches, canMarkChild, hp, hasAt_getClearAt x i all h0])
      simpa using this
    · exact MElems.yreach r toks R all (i+1) wf.2 hy.2 hs.2
        (fun y n h => by have := hsub y (n+1) (by simpa [MElems.HasAt] using h); simpa [Nat.add_assoc, Nat.add_comm 1 n] using this)
        hc hl a ha
theorem MMems.yreach : (ms : MMems) → (toks : List String) → (R : MJ) → (all : MMems) → all.WF →
    ms.WF → ms.YamlOK → ms.Small → (∀ k x, ms.Has k x → all.Has k x) →
    leads toks R (.obj all.unmark none) → ∀ a ∈ ms.yaddrs toks, reaches a.1 a.2 R = true
  | .nil, _, _, _, _, _, _, _, _, _ => by simp [MMems.yaddrs]
  | .clear k x r, toks, R, all, hall, wf, hy, hs, hsub, hl => by
    intro a ha
    simp only [MMems.yaddrs, List.mem_append] at ha
    have h0 : all.Has k x := hsub k x (by simp [MMems.Has])
    rcases ha with ha | ha
    · exact MJ.yreach x (toks ++ [k]) R wf.2.2.1 hy.1 hs.1
        (leads_obj toks R all.unmark none k x.unmark hl (has_getClear k x all hall h0)) a ha
    · exact MMems.yreach r toks R all hall wf.2.2.2.2 hy.2 hs.2
        (fun k' y h => hsub k' y (by simp [MMems.Has, h])) hl a ha
  | .marked k dg x r, toks, R, all, hall, wf, hy, hs, hsub, hl => by
    intro a ha
    simp only [MMems.yaddrs, List.mem_append, List.mem_cons] at ha
    have h0 : all.Has k x := hsub k x (by simp [MMems.Has])
    rcases ha with ha | rfl | ha
    · exact MJ.yreach x (toks ++ [k]) R wf.2.2.1 hy.1 hs.1
        (leads_obj toks R all.unmark none k x.unmark hl (has_getClear k x all hall h0)) a ha
    · have hres := has_not_reserved k x all hall h0
      have := hl [] k (by
        simp [reaches, canMarkChild, hres.1, hres.2, has_getClear k x all hall h0])
      simpa using this
    · exact MMems.yreach r toks R all hall wf.2.2.2.2 hy.2 hs.2
        (fun k' y h => hsub k' y (by simp [MMems.Has, h])) hl a ha
end

/-- **Every path `parse_yaml` reports addresses an existing member or element of the plain
claims**, with canonical index tokens -/
theorem yaddrs_addressable (T : MJ) (wf : T.WF) (hy : T.YamlOK) (hs : T.Small) :
    ∀ a ∈ T.yaddrs [], Addressable T.unmark a :=
  fun a ha => MJ.yreach T [] T.unmark wf hy hs (leads_nil _) a ha

/-! ### the reported order lists nested paths first and repeats none -/

theorem nestedFirst_append : (L1 L2 : List (List String × String)) → NestedFirst L1 → NestedFirst L2 →
    (∀ a ∈ L1, ∀ b ∈ L2, ¬ (a.1 ++ [a.2]) <+: (b.1 ++ [b.2])) → NestedFirst (L1 ++ L2)
  | [], L2, _, h2, _ => h2
  | a :: r, L2, h1, h2, hx => by
    refine ⟨?_, nestedFirst_append r L2 h1.2 h2 (fun a' ha' b hb => hx a' (by simp [ha']) b hb)⟩
    intro b hb
    rcases List.mem_append.mp hb with hb | hb
    · exact h1.1 b hb
    · exact hx a (by simp) b hb

theorem prefix_tok (toks : List String) (k k' : String) (as bs : List String)
    (h : (toks ++ k :: as) <+: (toks ++ k' :: bs)) : k = k' := by
  have := (List.prefix_append_right_inj toks).mp h
  exact (List.cons_prefix_cons.mp this).1

theorem keysGt_mem (k0 k : String) : (r : MMems) → r.keysGt k0 → k ∈ r.keys → k0 < k
  | .nil, _, h => by simp [MMems.keys] at h
  | .clear k' x r, hg, h => by
    simp only [MMems.keys, List.mem_cons] at h
    rcases h with rfl | h
    · exact hg.1
    · exact keysGt_mem k0 k r hg.2 h
  | .marked k' dg x r, hg, h => by
    simp only [MMems.keys, List.mem_cons] at h
    rcases h with rfl | h
    · exact hg.1
    · exact keysGt_mem k0 k r hg.2 h

mutual
/-- every address below a node extends the node's own tokens by at least one token -/
theorem MJ.yaddrs_ext : (x : MJ) → (toks : List String) →
    ∀ a ∈ x.yaddrs toks, ∃ s rest, a.1 ++ [a.2] = toks ++ s :: rest
  | .leaf _, _ => by simp [MJ.yaddrs]
  | .arr xs, toks => by
    intro a ha
    obtain ⟨n, rest, _, h⟩ := MElems.yaddrs_ext xs toks 0 a (by simpa [MJ.yaddrs] using ha)
    exact ⟨_, rest, h⟩
  | .obj ms _, toks => by
    intro a ha
    obtain ⟨k, rest, _, h⟩ := MMems.yaddrs_ext ms toks a (by simpa [MJ.yaddrs] using ha)
    exact ⟨k, rest, h⟩
theorem MElems.yaddrs_ext : (xs : MElems) → (toks : List String) → (i : Nat) →
    ∀ a ∈ xs.yaddrs toks i, ∃ n rest, i ≤ n ∧ a.1 ++ [a.2] = toks ++ toString n :: rest
  | .nil, _, _ => by simp [MElems.yaddrs]
  | .clear x r, toks, i => by
    intro a ha
    simp only [MElems.yaddrs, List.mem_append] at ha
    rcases ha with ha | ha
    · obtain ⟨s, rest, h⟩ := MJ.yaddrs_ext x (toks ++ [toString i]) a ha
      exact ⟨i, s :: rest, Nat.le_refl _, by rw [h]; simp⟩
    · obtain ⟨n, rest, hn, h⟩ := MElems.yaddrs_ext r toks (i+1) a ha
      exact ⟨n, rest, by omega, h⟩
  | .marked dg x r, toks, i => by
    intro a ha
    simp only [MElems.yaddrs, List.mem_cons] at ha
    rcases ha with rfl | ha
    · exact ⟨i, [], Nat.le_refl _, rfl⟩
    · obtain ⟨n, rest, hn, h⟩ := MElems.yaddrs_ext r toks (i+1) a ha
      exact ⟨n, rest, by omega, h⟩
  | .decoy dg r, toks, i => by
    intro a ha
    simp only [MElems.yaddrs] at ha
    obtain ⟨n, rest, hn, h⟩ := MElems.yaddrs_ext r toks (i+1) a ha
    exact ⟨n, rest, by omega, h⟩
theorem MMems.yaddrs_ext : (ms : MMems) → (toks : List String) →
    ∀ a ∈ ms.yaddrs toks, ∃ k rest, k ∈ ms.keys ∧ a.1 ++ [a.2] = toks ++ k :: rest
  | .nil, _ => by simp [MMems.yaddrs]
  | .clear k x r, toks => by
    intro a ha
    simp only [MMems.yaddrs, List.mem_append] at ha
    rcases ha with ha | ha
    · obtain ⟨s, rest, h⟩ := MJ.yaddrs_ext x (toks ++ [k]) a ha
      exact ⟨k, s :: rest, by simp [MMems.keys], by rw [h]; simp⟩
    · obtain ⟨k', rest, hk, h⟩ := MMems.yaddrs_ext r toks a ha
      exact ⟨k', rest, by simp [MMems.keys, hk], h⟩
  | .marked k dg x r, toks => by
    intro a ha
    simp only [MMems.yaddrs, List.mem_append, List.mem_cons] at ha
    rcases ha with ha | rfl | ha
    · obtain ⟨s, rest, h⟩ := MJ.yaddrs_ext x (toks ++ [k]) a ha
      exact ⟨k, s :: rest, by simp [MMems.keys], by rw [h]; simp⟩
    · exact ⟨k, [], by simp [MMems.keys], rfl⟩
    · obtain ⟨k', rest, hk, h⟩ := MMems.yaddrs_ext r toks a ha
      exact ⟨k', rest, by simp [MMems.keys, hk], h⟩
end

mutual
theorem MJ.yaddrs_nested : (x : MJ) → (toks : List String) → x.WF → NestedFirst (x.yaddrs toks)
  | .leaf _, _, _ => trivial
  | .arr xs, toks, wf => by
    simp only [MJ.WF] at wf
    simpa [MJ.yaddrs] using MElems.yaddrs_nested xs toks 0 wf
  | .obj ms _, toks, wf => by
    simp only [MJ.WF] at wf
    simpa [MJ.yaddrs] using MMems.yaddrs_nested ms toks wf.1
theorem MElems.yaddrs_nested : (xs : MElems) → (toks : List String) → (i : Nat) → xs.WF →
    NestedFirst (xs.yaddrs toks i)
  | .nil, _, _, _ => trivial
  | .clear x r, toks, i, wf => by
    simp only [MElems.yaddrs]
    refine nestedFirst_append _ _ (MJ.yaddrs_nested x _ wf.1) (MElems.yaddrs_nested r toks (i+1) wf.2) ?_
    intro a ha b hb hp
    obtain ⟨s, rest, h1⟩ := MJ.yaddrs_ext x (toks ++ [toString i]) a ha
    obtain ⟨n, rest', hn, h2⟩ := MElems.yaddrs_ext r toks (i+1) b hb
    rw [h1, h2, List.append_assoc] at hp
    have := toString_nat_inj (prefix_tok toks _ _ _ _ hp)
    omega
  | .marked dg x r, toks, i, wf => by
    simp only [MElems.yaddrs]
    refine ⟨?_, MElems.yaddrs_nested r toks (i+1) wf.2⟩
    intro b hb hp
    obtain ⟨n, rest', hn, h2⟩ := MElems.yaddrs_ext r toks (i+1) b hb
    rw [h2] at hp
    have := toString_nat_inj (prefix_tok toks _ _ [] _ hp)
    omega
  | .decoy dg r, toks, i, wf => by
    simpa [MElems.yaddrs] using MElems.yaddrs_nested r toks (i+1) wf
theorem MMems.yaddrs_nested : (ms : MMems) → (toks : List String) → ms.WF → NestedFirst (ms.yaddrs toks)
  | .nil, _, _ => trivial
  | .clear k x r, toks, wf => by
    simp only [MMems.yaddrs]
    refine nestedFirst_append _ _ (MJ.yaddrs_nested x _ wf.2.2.1) (MMems.yaddrs_nested r toks wf.2.2.2.2) ?_
    intro a ha b hb hp
    obtain ⟨s, rest, h1⟩ := MJ.yaddrs_ext x (toks ++ [k]) a ha
    obtain ⟨k', rest', hk', h2⟩ := MMems.yaddrs_ext r toks b hb
    rw [h1, h2, List.append_assoc] at hp
    exact slt_ne (keysGt_mem k k' r wf.2.2.2.1 hk') (prefix_tok toks _ _ _ _ hp)
  | .marked k dg x r, toks, wf => by
    simp only [MMems.yaddrs]
    have hown : ∀ b ∈ r.yaddrs toks, ¬ (toks ++ [k]) <+: (b.1 ++ [b.2]) := by
      intro b hb hp
      obtain ⟨k', rest', hk', h2⟩ := MMems.yaddrs_ext r toks b hb
      rw [h2] at hp
      exact slt_ne (keysGt_mem k k' r wf.2.2.2.1 hk') (prefix_tok toks _ _ [] _ hp)
    refine nestedFirst_append _ _ (MJ.yaddrs_nested x _ wf.2.2.1)
      ⟨hown, MMems.yaddrs_nested r toks wf.2.2.2.2⟩ ?_
    intro a ha b hb hp
    obtain ⟨s, rest, h1⟩ := MJ.yaddrs_ext x (toks ++ [k]) a ha
    simp only [List.mem_cons] at hb
    rcases hb with rfl | hb
    · -- the member's own path is shorter than any path below it
      rw [h1] at hp
      have := hp.length_le
      simp at this
    · obtain ⟨k', rest', hk', h2⟩ := MMems.yaddrs_ext r toks b hb
      rw [h1, h2, List.append_assoc] at hp
      exact slt_ne (keysGt_mem k k' r wf.2.2.2.1 hk') (prefix_tok toks _ _ _ _ hp)
end

/-- **Issuing with the paths `parse_yaml` reports is defined.**  For a marked tree a YAML document
can express, whose arrays are shorter than 2^64: the reported path strings parse to addresses under
which marking the plain claims is defined (one disclosure per reported path), for every digest
function that never repeats a value across draws. -/
theorem yaml_paths_markAll (mk : Nat → Option String → J → String)
    (hmk : ∀ i j k v k' v', mk i k v = mk j k' v' → i = j)
    (T : MJ) (wf : T.WF) (hy : T.YamlOK) (hs : T.Small) :
    ParsedAll (T.ypaths []) (T.yaddrs []) ∧
    ∃ Tn ds, markAll mk 0 (T.yaddrs []) T.unmark = some (Tn, ds) ∧ ds.length = (T.ypaths []).length := by
  have hr := MJ.ypaths_render T []
  simp only [List.map_nil] at hr
  refine ⟨by rw [hr]; exact parsedAll_render _, ?_⟩
  obtain ⟨Tn, ds, h⟩ := markAll_defined mk hmk (T.yaddrs []) 0 T.unmark (yaddrs_addressable T wf hy hs)
    (MJ.yaddrs_nested T [] wf) (fun g hg => by rw [MJ.unmark_digests] at hg; cases hg)
  exact ⟨Tn, ds, h, by rw [markAll_length mk _ 0 _ Tn ds h, hr, List.length_map]⟩

theorem unmark_keys : (ms : MMems) → ms.unmark.keys = ms.keys
  | .nil => rfl
  | .clear k x r => by simp [MMems.unmark, MMems.keys, unmark_keys r]
  | .marked k dg x r => by simp [MMems.unmark, MMems.keys, unmark_keys r]

mutual
theorem MJ.unmark_project (S : String → Bool) : (T : MJ) → T.unmark.project S = T.plain
  | .leaf j => rfl
  | .arr xs => by
    simp only [MJ.plain]
    simp [MJ.unmark, MJ.project, MElems.unmark_project S xs]
  | .obj ms sd => by
    simp only [MJ.plain]
    simp [MJ.unmark, MJ.project, MMems.unmark_project S ms]
theorem MElems.unmark_project (S : String → Bool) : (xs : MElems) →
    xs.unmark.project S = xs.project (fun _ => true)
  | .nil => rfl
  | .clear x r => by
    have h1 := MJ.unmark_project S x
    simp only [MJ.plain] at h1
    simp [MElems.unmark, MElems.project, h1, MElems.unmark_project S r]
  | .marked dg x r => by
    have h1 := MJ.unmark_project S x
    simp only [MJ.plain] at h1
    simp [MElems.unmark, MElems.project, h1, MElems.unmark_project S r]
  | .decoy dg r => by simp [MElems.unmark, MElems.project, MElems.unmark_project S r]
theorem MMems.unmark_project (S : String → Bool) : (ms : MMems) →
    ms.unmark.project S = ms.project (fun _ => true)
  | .nil => rfl
  | .clear k x r => by
    have h1 := MJ.unmark_project S x
    simp only [MJ.plain] at h1
    simp [MMems.unmark, MMems.project, h1, MMems.unmark_project S r]
  | .marked k dg x r => by
    have h1 := MJ.unmark_project S x
    simp only [MJ.plain] at h1
    simp [MMems.unmark, MMems.project, h1, MMems.unmark_project S r]
end

end Impl
