import SdJwt.Lemmas.MarkInv
import SdJwt.Lemmas.Ancestry
/-!
# The pointer of a node the issuer marks is the path string it was given (canonical paths)

Marking the node addressed by `(toks, last)` adds exactly one entry to `T.paths`: the pointer
`format_path` renders for that node.  When every token that addresses an array element is the
canonical decimal of its index, that pointer is `renderPath toks last` — the string whose
parsing gave `(toks, last)`.
-/
open Assoc Spec Path
namespace Impl

theorem paths_toMarked (k dg p : String) : (ms : MMems) → (x : MJ) → ms.getClear k = some x →
    ((ms.toMarked k dg).paths p).Perm ((fmtPath p k, dg) :: ms.paths p)
  | .nil, _, h => by simp [MMems.getClear] at h
  | .clear k' x' r, x, h => by
    simp only [MMems.getClear] at h
    by_cases hk : k' = k
    · subst hk
      simp only [MMems.toMarked, if_true, MMems.paths]
      exact List.Perm.refl _
    · simp only [hk, if_false] at h
      simp only [MMems.toMarked, hk, if_false, MMems.paths]
      exact ((paths_toMarked k dg p r x h).append_left _).trans List.perm_middle
  | .marked k' dg' x' r, x, h => by
    simp only [MMems.getClear] at h
    simp only [MMems.toMarked, MMems.paths]
    have := paths_toMarked k dg p r x h
    exact ((this.append_left _).trans List.perm_middle).cons _ |>.trans (List.Perm.swap _ _ _)

theorem paths_setClear (k p : String) (y : MJ) (a : String × String) : (ms : MMems) → (x : MJ) →
    ms.getClear k = some x → (y.paths (fmtPath p k)).Perm (a :: x.paths (fmtPath p k)) →
    ((ms.setClear k y).paths p).Perm (a :: ms.paths p)
  | .nil, _, h, _ => by simp [MMems.getClear] at h
  | .clear k' x' r, x, h, hy => by
    simp only [MMems.getClear] at h
    by_cases hk : k' = k
    · subst hk
      simp only [if_true, Option.some.injEq] at h; subst h
      simp only [MMems.setClear, if_true, MMems.paths]
      exact hy.append_right _
    · simp only [hk, if_false] at h
      simp only [MMems.setClear, hk, if_false, MMems.paths]
      exact ((paths_setClear k p y a r x h hy).append_left _).trans List.perm_middle
  | .marked k' dg' x' r, x, h, hy => by
    simp only [MMems.getClear] at h
    simp only [MMems.setClear, MMems.paths]
    have := paths_setClear k p y a r x h hy
    exact ((this.append_left _).trans List.perm_middle).cons _ |>.trans (List.Perm.swap _ _ _)

theorem paths_toMarkedAt (dg p : String) : (j i : Nat) → (xs : MElems) → (x : MJ) → xs.getClearAt j = some x →
    ((xs.toMarkedAt dg j).paths p i).Perm ((fmtPath p (toString (i + j)), dg) :: xs.paths p i)
  | _, _, .nil, _, h => by simp [MElems.getClearAt] at h
  | 0, i, .clear x' r, x, _ => by simp [MElems.toMarkedAt, MElems.paths]
  | 0, _, .marked _ _ _, _, h => by simp [MElems.getClearAt] at h
  | 0, _, .decoy _ _, _, h => by simp [MElems.getClearAt] at h
  | j+1, i, .clear x' r, x, h => by
    simp only [MElems.getClearAt] at h
    have := paths_toMarkedAt dg p j (i+1) r x h
    have e : i + 1 + j = i + (j + 1) := by omega
    rw [e] at this
    simp only [MElems.toMarkedAt, MElems.paths]
    exact (this.append_left _).trans List.perm_middle
  | j+1, i, .marked dg' x' r, x, h => by
    simp only [MElems.getClearAt] at h
    have := paths_toMarkedAt dg p j (i+1) r x h
    have e : i + 1 + j = i + (j + 1) := by omega
    rw [e] at this
    simp only [MElems.toMarkedAt, MElems.paths]
    exact ((this.append_left _).trans List.perm_middle).cons _ |>.trans (List.Perm.swap _ _ _)
  | j+1, i, .decoy dg' r, x, h => by
    simp only [MElems.getClearAt] at h
    have := paths_toMarkedAt dg p j (i+1) r x h
    have e : i + 1 + j = i + (j + 1) := by omega
    rw [e] at this
    simpa [MElems.toMarkedAt, MElems.paths] using this

theorem paths_setClearAt (p : String) (y : MJ) (a : String × String) (n : Nat) : (j : Nat) → (xs : MElems) →
    ∀ (i : Nat) (x : MJ), n = i + j → xs.getClearAt j = some x →
    (y.paths (fmtPath p (toString n))).Perm (a :: x.paths (fmtPath p (toString n))) →
    ((xs.setClearAt y j).paths p i).Perm (a :: xs.paths p i)
  | _, .nil, _, _, _, h, _ => by simp [MElems.getClearAt] at h
  | 0, .clear x' r, i, x, hn, h, hy => by
    simp only [MElems.getClearAt, Option.some.injEq] at h; subst h
    have : n = i := by omega
    subst this
    simp only [MElems.setClearAt, MElems.paths]
    exact hy.append_right _
  | 0, .marked _ _ _, _, _, _, h, _ => by simp [MElems.getClearAt] at h
  | 0, .decoy _ _, _, _, _, h, _ => by simp [MElems.getClearAt] at h
  | j+1, .clear x' r, i, x, hn, h, hy => by
    simp only [MElems.getClearAt] at h
    have := paths_setClearAt p y a n j r (i+1) x (by omega) h hy
    simp only [MElems.setClearAt, MElems.paths]
    exact (this.append_left _).trans List.perm_middle
  | j+1, .marked dg' x' r, i, x, hn, h, hy => by
    simp only [MElems.getClearAt] at h
    have := paths_setClearAt p y a n j r (i+1) x (by omega) h hy
    simp only [MElems.setClearAt, MElems.paths]
    exact ((this.append_left _).trans List.perm_middle).cons _ |>.trans (List.Perm.swap _ _ _)
  | j+1, .decoy dg' r, i, x, hn, h, hy => by
    simp only [MElems.getClearAt] at h
    have := paths_setClearAt p y a n j r (i+1) x (by omega) h hy
    simpa [MElems.setClearAt, MElems.paths] using this

/-- tokens that parse as an index are the canonical decimal of that index -/
def CanonToks (toks : List String) : Prop :=
  ∀ t ∈ toks, ∀ i, (pI t = some i ∨ pU t = some i) → t = toString i

/-- **Marking adds the pointer of the addressed node.** -/
theorem markIn_paths (mk : Option String → J → String) (last : String) :
    (toks : List String) → (T T' : MJ) → (d : SDisc) → (p : String) → CanonToks (toks ++ [last]) →
    MJ.markIn pI pU mk toks last T = some (T', d) →
    (T'.paths p).Perm (((toks ++ [last]).foldl fmtPath p, d.digest) :: T.paths p)
  | [], T, T', d, p, hc, h => by
    simp only [MJ.markIn] at h
    cases T with
    | leaf j => simp [MJ.markChild] at h
    | arr xs =>
      simp only [MJ.markChild] at h
      cases hp : pU last with
      | none => simp [hp] at h
      | some j =>
        simp only [hp] at h
        cases hg : xs.getClearAt j with
        | none => simp [hg] at h
        | some x =>
          simp only [hg, Option.some.injEq, Prod.mk.injEq] at h
          obtain ⟨rfl, rfl⟩ := h
          have hl : last = toString j := hc last (by simp) j (.inr hp)
          have := paths_toMarkedAt (mk none x.payload) p j 0 xs x hg
          simpa [MJ.paths, hl] using this
    | obj ms sd =>
      simp only [MJ.markChild] at h
      by_cases hr : last = "_sd" ∨ last = "..."
      · simp [hr] at h
      · simp only [hr, if_false] at h
        cases hg : ms.getClear last with
        | none => simp [hg] at h
        | some x =>
          simp only [hg, Option.some.injEq, Prod.mk.injEq] at h
          obtain ⟨rfl, rfl⟩ := h
          simpa [MJ.paths] using paths_toMarked last (mk (some last) x.payload) p ms x hg
  | t :: r, T, T', d, p, hc, h => by
    simp only [MJ.markIn] at h
    cases hch : T.child pI t with
    | none => simp [hch] at h
    | some x =>
      simp only [hch] at h
      cases hm : MJ.markIn pI pU mk r last x with
      | none => simp [hm] at h
      | some res =>
        obtain ⟨x', d'⟩ := res
        simp only [hm, Option.some.injEq, Prod.mk.injEq] at h
        obtain ⟨rfl, rfl⟩ := h
        have hc' : CanonToks (r ++ [last]) := fun t' ht' => hc t' (by simp at ht' ⊢; exact .inr ht')
        cases T with
        | leaf j => simp [MJ.child] at hch
        | arr xs =>
          simp only [MJ.child] at hch
          cases hp : pI t with
          | none => simp [hp] at hch
          | some j =>
            simp only [hp, Option.bind_some] at hch
            have ht : t = toString j := hc t (by simp) j (.inl hp)
            have ih := markIn_paths mk last r x x' d' (fmtPath p (toString j)) hc' hm
            have := paths_setClearAt p x' _ j j xs 0 x (by omega) hch ih
            have hset : MJ.setChild pI t x' (.arr xs) = .arr (xs.setClearAt x' j) := by
              simp [MJ.setChild, hp]
            have hfold : (t :: r ++ [last]).foldl fmtPath p =
                (r ++ [last]).foldl fmtPath (fmtPath p (toString j)) := by
              rw [List.cons_append, List.foldl_cons, ← ht]
            rw [hset, hfold]
            simpa [MJ.paths] using this
        | obj ms sd =>
          simp only [MJ.child] at hch
          have ih := markIn_paths mk last r x x' d' (fmtPath p t) hc' hm
          have := paths_setClear t p x' _ ms x hch ih
          simpa [MJ.setChild, MJ.paths] using this

/-- the pointer `format_path` builds along canonical tokens is the rendered JSON pointer -/
theorem foldl_fmtPath (segs0 toks : List String) :
    toks.foldl fmtPath (joinPath segs0) = joinPath (segs0 ++ toks.map escapeSeg) := by
  induction toks generalizing segs0 with
  | nil => simp
  | cons t r ih =>
    simp only [List.foldl_cons, List.map_cons]
    rw [fmtPath_joinPath, ih]
    simp

theorem joinPath_eq_renderPath (toks : List String) (last : String) :
    joinPath ((toks ++ [last]).map escapeSeg) = renderPath toks last := by
  apply String.toList_inj.mp
  rw [toList_joinPath, renderPath, String.toList_ofList, List.map_map]
  congr 1
  apply List.map_congr_left
  intro k _
  simp [escapeSeg, String.toList_ofList]

/-- **The pointers of the issued tree are the path strings the issuer was given**, for canonical
path strings: marking the addressed nodes one after another adds, per path, the entry
(rendered pointer, digest of its disclosure). -/
theorem markAll_paths (mk : Nat → Option String → J → String) :
    (addr : List (List String × String)) → (i : Nat) → (T Tn : MJ) → (ds : List SDisc) →
    (∀ a ∈ addr, CanonToks (a.1 ++ [a.2])) → markAll mk i addr T = some (Tn, ds) →
    (Tn.paths "").Perm ((addr.map (fun a => renderPath a.1 a.2)).zip (ds.map (·.digest)) ++ T.paths "")
  | [], i, T, Tn, ds, _, h => by
    simp only [markAll, Option.some.injEq, Prod.mk.injEq] at h
    obtain ⟨rfl, rfl⟩ := h
    simp
  | (toks, last) :: r, i, T, Tn, ds, hc, h => by
    simp only [markAll] at h
    cases hm : MJ.markIn pI pU (mk i) toks last T with
    | none => simp [hm] at h
    | some res =>
      obtain ⟨T1, d⟩ := res
      simp only [hm] at h
      split at h
      · cases h
      · cases ha : markAll mk (i+1) r T1 with
        | none => simp [ha] at h
        | some res2 =>
          obtain ⟨T2, ds2⟩ := res2
          simp only [ha, Option.some.injEq, Prod.mk.injEq] at h
          obtain ⟨rfl, rfl⟩ := h
          have h1 := markIn_paths (mk i) last toks T T1 d "" (hc (toks, last) (by simp)) hm
          have h2 := markAll_paths mk r (i+1) T1 T2 ds2 (fun a ha' => hc a (by simp [ha'])) ha
          have hq : (toks ++ [last]).foldl fmtPath "" = renderPath toks last := by
            have := foldl_fmtPath [] (toks ++ [last])
            simp only [joinPath, List.foldl_nil, List.nil_append] at this
            rw [this]
            exact joinPath_eq_renderPath toks last
          rw [hq] at h1
          refine h2.trans ?_
          simp only [List.map_cons, List.zip_cons_cons, List.cons_append]
          exact ((h1.append_left _).trans List.perm_middle)

end Impl

namespace Impl

theorem markAll_length (mk : Nat → Option String → J → String) :
    (addr : List (List String × String)) → (i : Nat) → (T Tn : MJ) → (ds : List SDisc) →
    markAll mk i addr T = some (Tn, ds) → ds.length = addr.length
  | [], i, T, Tn, ds, h => by
    simp only [markAll, Option.some.injEq, Prod.mk.injEq] at h
    rw [← h.2]; rfl
  | (toks, last) :: r, i, T, Tn, ds, h => by
    simp only [markAll] at h
    cases hm : MJ.markIn pI pU (mk i) toks last T with
    | none => simp [hm] at h
    | some res =>
      obtain ⟨T1, d⟩ := res
      simp only [hm] at h
      split at h
      · cases h
      · cases ha : markAll mk (i+1) r T1 with
        | none => simp [ha] at h
        | some res2 =>
          obtain ⟨T2, ds2⟩ := res2
          simp only [ha, Option.some.injEq, Prod.mk.injEq] at h
          obtain ⟨rfl, rfl⟩ := h
          simp [markAll_length mk r (i+1) T1 T2 ds2 ha]

theorem parsedAll_render : (addr : List (List String × String)) →
    ParsedAll (addr.map (fun a => renderPath a.1 a.2)) addr
  | [] => trivial
  | (toks, last) :: r => ⟨parsed_renderPath toks last, parsedAll_render r⟩

/-- the pointers of the issued tree, as a list of strings, are the canonical path strings given -/
theorem issued_pointers (mk : Nat → Option String → J → String) (addr : List (List String × String))
    (T Tn : MJ) (ds : List SDisc) (hclear : T.allMarks = [])
    (hc : ∀ a ∈ addr, CanonToks (a.1 ++ [a.2])) (h : markAll mk 0 addr T = some (Tn, ds)) :
    ((Tn.paths "").map (·.1)).Perm (addr.map (fun a => renderPath a.1 a.2)) := by
  have h1 := markAll_paths mk addr 0 T Tn ds hc h
  have hT : T.paths "" = [] := by
    have := MJ.paths_snd T ""
    rw [hclear] at this
    simpa using this
  rw [hT, List.append_nil] at h1
  have hlen := markAll_length mk addr 0 T Tn ds h
  refine (h1.map (·.1)).trans ?_
  rw [List.map_fst_zip (by simp [hlen])]

end Impl
