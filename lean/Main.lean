import SdJwt.Exec.Ops
open Exec

partial def loop (hin hout : IO.FS.Stream) : IO Unit := do
  let line ← hin.getLine
  if line.isEmpty then return ()
  let l := line.trimAscii.toString
  if l.isEmpty then loop hin hout else
  let resp := match parseJ l with
    | some req => dispatch req
    | none => mkObj [("error", .str "request is not JSON")]
  hout.putStrLn (printJ 0 resp)
  hout.flush
  loop hin hout

def main : IO Unit := do loop (← IO.getStdin) (← IO.getStdout)
