import SdJwt.Data.J
import SdJwt.Lemmas.Assoc
