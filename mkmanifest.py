#!/usr/bin/env python3
"""Regenerates MANIFEST.json from the table below (kept as a script so the manifest stays valid)."""
import json, os

CLAIMED = {
 "C01": dict(partial=False, design="§5 C01, §4 T-issue/T-restore",
   text="Lean theorems over the marked-tree spec and the Impl model of the restorer (stripping law removeAll∘hview = project for all conformant trees; T-restore step lemmas), plus a correspondence run: random claims trees x markings x orders issued by the real Issuer, verified by the real Holder, compared with the Impl model (real vs model), with the Lean spec (plain T, paths, payload T) and with the reference verifier on the same bytes.",
   note="Digest distinctness (SHA-2 collision resistance, fresh salts) and NoReserved claim names are hypotheses of the theorems; the Impl model is validated against /repo by the run, not verified.",
   tech="Lean 4 proof over hand-written model + differential correspondence (real crate vs model vs spec)"),
 "C10": dict(partial=True, design="§5 C10",
   text="PARTIAL. Lean theorems: every modelled splitter / decoder / restorer returns ok or err for every input (the model has an explicit panic outcome at every Rust panic site; the pre-fix transcription of sd_jwt_parts is shown to panic). Correspondence: all strings over {a . ~} up to length 9/12 through every public entry point under catch_unwind, compared with the model; validly signed payloads of every JSON type, malformed disclosures, mutated tokens, junk through the small parsers.",
   note="Third-party parsers and crypto are exercised, not modelled. Known finding KF-1: jwt-rustcrypto leeway arithmetic overflows (dependency).",
   tech="Lean 4 totality proofs over the model + exhaustive/structured differential run under catch_unwind"),
}

REASON_PENDING = "check under construction in this session: model and correspondence exist in part; not yet registered"

ALL = [f"C{n:02d}" for n in range(1, 17)]

def main():
    checks = []
    for pid in ALL:
        if pid not in CLAIMED:
            continue
        c = CLAIMED[pid]
        checks.append({
            "property_id": pid,
            "quick_cmd": f"./check {pid} --tier quick",
            "thorough_cmd": f"./check {pid} --tier thorough",
            "evidence_file": f"/verif/evidence/{pid}.json",
            "replay_cmd_template": f"./check {pid} --replay {{path}}",
            "engine": "lean-proof+correspondence",
            "level_claimed": {"category": "proof", "text": c["text"], "design_ref": c["design"]},
            "level_note": c["note"],
            "technique": c["tech"],
        })
    manifest = {
        "version": 1,
        "setup_cmd": "cd /verif/lean && lake build SdJwt driver && cd /verif/harness && cp /repo/Cargo.lock Cargo.lock && CARGO_NET_OFFLINE=true cargo build --release --offline",
        "hooks": {
            "guard": "robjsliwa_sd_jwt_verif",
            "enable": "no source hooks are needed: the harness drives the public API only; the guard name is reserved (RUSTFLAGS='--cfg robjsliwa_sd_jwt_verif') and unused",
            "baseline_off_cmd": "cd /repo && cargo test --workspace --no-fail-fast --offline",
            "source_commits": [],
            "add_only": True,
        },
        "engines": [
            {"name": "lean-proof+correspondence", "path": "/verif/check",
             "serves_properties": [c["property_id"] for c in checks],
             "kind_free_text": "Lean 4 theorems over a hand-written executable model (lean/SdJwt), re-checked on every run with an axiom audit; Rust harness (harness/) linking the real crate from /repo's working tree, piping cases to the compiled Lean driver and reporting real-vs-model, real-vs-spec and model-vs-spec differences separately"},
        ],
        "checks": checks,
        "notes": "See DESIGN.md. Genuine defects found on the pinned tree were repaired by `fix:` commits in /repo (listed in known_findings.json under `fixed`); D21 (dependency) is a known finding.",
        "not_applicable": [{"property_id": p, "reason": REASON_PENDING} for p in ALL if p not in CLAIMED],
    }
    json.dump(manifest, open(os.path.join(os.path.dirname(os.path.abspath(__file__)), "MANIFEST.json"), "w"), indent=1)

if __name__ == "__main__":
    main()
