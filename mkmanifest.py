#!/usr/bin/env python3
"""Regenerates MANIFEST.json from the table below (kept as a script so the manifest stays valid)."""
import json, os

COMMON_NOTE = "Hypotheses of the theorems (stated explicitly, never axioms): digests pairwise distinct (SHA-2 collision resistance, fresh salts), no hash fixed point, claim names not reserved. The hand-written Impl model is validated against /repo by the correspondence run of this check, not verified; crypto, base64, JSON/YAML text parsing, CSPRNG and clock are parameters of the model. "
TECH = "Lean 4 proof over hand-written model + differential correspondence (real crate vs Impl model vs Lean spec)"

CLAIMED = {
 "C01": dict(design="§5 C01, §4", text="Lean: stripping law removeAll(hview S T) = project S T for every conformant marked tree, T-restore step lemmas; run: random claims trees x markings x descendants-first orders x decoys/cnf/exp/13 algorithms issued by the real Issuer and verified by the real Holder, compared with the Impl model, with the Lean spec (plain T, payload T, paths) and with the reference verifier on the same bytes.", note=""),
 "C02": dict(design="§5 C02", text="Lean: holder filter characterised (kept iff path not redacted and not below a redacted disclosure; no-op for non-disclosable paths; order preserved) and stripping = projection; run: own and reference-issued tokens x 6-7 redaction lists each (none, all, subsets, enclosing claim only, non-existent / near-miss paths), bound and unbound, through Holder::presentation/redact/build and Verifier::verify against project(keep T R) computed by the Lean spec; holder prefix compared byte for byte with the model.", note=""),
 "C03": dict(design="§5 C03", text="Lean (for arbitrary payloads and lists): repeated disclosure rejected, any undecodable/malformed string rejected, restoration total, strip of any holder view is a projection of the original; run: adversarial lists (subsets, permutations, duplicates, foreign disclosures of a second issuance, flipped/truncated/non-alphabet characters, wrong arity, non-string/reserved names, empty segments) against Err or project(S) with S within the ancestor-closed part of the list, exact for clean ancestor-closed lists.", note=""),
 "C04": dict(partial=True, design="§5 C04", text="PARTIAL. Lean: decode accepts iff header alg = configured alg, key family admits it, signature primitive accepts and the claims policy holds; both 13-row algorithm tables are the identity on names (decided over the whole table) and injective; other algorithm / other family / bad signature rejected; holder and verifier fail without touching disclosures when decode fails. Run: exhaustive 13x13x12 matrix + public-key-as-HMAC-secret confusion + forged HS tokens + single character / single bit mutations of all three segments for all 13 algorithms.", note="Unforgeability and byte-exactness of the signature primitives (RustCrypto) are a hypothesis, exercised by the run, not proved. "),
 "C05": dict(design="§5 C05", text="Lean: C05_accept_iff states the decision of Verifier::verify_raw outright (unbound and no KB, or bound + KB + policy + key-binding check + sd_hash = H(presentation up to last ~)); verify_kb opened (RSA JWK shape, typ kb+jwt); any change of the disclosure list changes the hashed string (C05_tamper, for all lists); unbound+KB rejected; holder refuses to build without binding. Run: genuine presentations x 5 policies, KB stripped/swapped, 6 kinds of list edits after binding, 16 crafted single-defect KB-JWTs, unbound tokens.", note="Signature/audience/algorithm checks of the KB-JWT are the JWT library's (see C04/C11). "),
 "C06": dict(design="§5 C06", text="Lean: every string in payload T (names and string values at any depth) is a string outside all marked nodes, a digest, or _sd/... (C06_payload, all trees); presented disclosures exclude redacted paths and everything below a redacted disclosure. Run: unique sentinels in every name and value; decoded header/payload of the issuer JWT and every decoded segment of Holder::build output searched for sentinels that must be absent; disclosure counts.", note="Byte level (JSON text / base64 contain a string only if the tree does) is checked by the search, not proved. "),
 "C07": dict(design="§5 C07", text="Lean: disclosure JSON round trip, reserved names never disclosed, member digest goes to the parent's _sd, element digest takes the element's index, _sd_alg declared; Spec/RefVerify.lean is the independent verifier (written from the specification, shares nothing with Impl). Run: framing/alphabet, payload vs spec placement with digests recomputed by the driver's own SHA-2, RefVerify on the real bytes for full/empty/random (thorough: all) sub-lists, Disclosure API over names x values x salt lengths x 3 hash algorithms.", note=""),
 "C08": dict(design="§5 C08", text="Lean: MJ is the abstract syntax of every conformant SD-JWT (any _sd order, decoys anywhere, recursion); digest = hash of the string as presented; strip of the restored view = plain T / project S T. Run: tokens issued by the Lean reference issuer (sha-256/384/512, permuted lists, 3 JSON formattings, salts 0-64 chars, decoys at any level) through Holder::verify, Holder::build, Verifier::verify, and the derived presentations through RefVerify (strict).", note=""),
 "C09": dict(partial=True, design="§5 C09", text="PARTIAL. Lean: content of the KB-JWT (typ, alg, aud, nonce, iat, sd_hash = H(prefix) under the declared algorithm), prefix independent of nonce/clock, drop_kb of the full presentation is exactly the hashed prefix (for all strings). Run: bound tokens x redactions x RS/PS 256/384/512 x 3 builds; sd_hash recomputed by the Lean driver, signature checked through decode and verify_kb and refused under another key, iat window, nonce form and distinctness.", note="Nonce freshness (CSPRNG) and the clock are observed by the run, not proved. "),
 "C10": dict(partial=True, design="§5 C10", text="PARTIAL. Lean: every modelled splitter / decoder / validator / restorer / issuer step returns ok or err for every input (explicit panic outcome at every Rust panic site; the pre-fix transcription of sd_jwt_parts is shown to panic). Run: all strings over {a . ~} up to length 9/12 through every public entry point under catch_unwind and compared with the model; validly signed payloads of every JSON type, malformed disclosures, mutated tokens, junk through the small parsers.", note="Third-party parsers and crypto are exercised, not modelled. Known finding KF-1: jwt-rustcrypto leeway arithmetic overflow (dependency). "),
 "C11": dict(design="§5 C11", text="Lean: frame condition for every builder and field; C11_order: for ANY sequence of steps each field is determined by the sub-sequence naming it (hence commutation in any interleaving); C11_enforce: decode accepts iff all configured constraints hold (exp/nbf with leeway, iss, sub, aud, required claims) outside the overflow region. Run: all builder sequences up to length 3/4, random reorderings, >6000 (policy, single-violation token) pairs through decode/Holder::verify/Verifier::verify.", note="The claims checks of jwt-rustcrypto are re-modelled from its source and compared on threshold cases, not verified; exact boundary second covered by the theorem, not the run. "),
 "C12": dict(design="§5 C12", text="Lean, for ARBITRARY payloads and lists: wrong shape/arity, non-string name, reserved name, undecodable string => rejected wherever it stands; _sd not an array, placeholder with extra members, digest embedded twice anywhere at any depth => rejected (the validating pre-pass is characterised exactly: it succeeds only with pairwise distinct embedded digests and returns them); name collision and arity-vs-place rejected at the object/element; unsupported _sd_alg rejected by holder and verifier. Run: reference-issued tokens with exactly one seeded defect (11 kinds, any depth, also inside disclosure values) through the three entry points, twins accepted.", note=""),
 "C13": dict(partial=True, design="§5 C13", text="PARTIAL. Lean (randomness as parameter): one draw per disclosure, distinct draws give pairwise distinct digests even for identical claims, order transfer under a fixed permutation. Run: the property's own numbers - quick >= 4*10^5 decoys and >= 5*10^4 disclosures, thorough >= 6*10^6 and >= 10^6: salts >= 16 bytes and distinct, digests and decoys distinct, decoys != real digests, same form, count in [1,max], every digest list (top-level, nested, inside disclosed values) not constantly in marking order over >= 200 issuances.", note="The CSPRNG is observed, not proved; false-alarm probabilities as computed in the property. "),
 "C14": dict(design="§5 C14", text="Lean: encode never panics on a claims object for all paths / digests / decoy draws / cnf (a non-object root does - witness); error classification (no slash, unknown member, index out of range, non-numeric index, into scalar, through removed member). Run: valid markings and path lists with one invalid path of 9 kinds at random positions, decoy maxima -3..50, 3 encodes per issuer with Debug rendering before/after, every output verified, exp window; class and payload compared with the issuer model.", note="That encode(&mut self) leaves the issuer unchanged is observed by the run. "),
 "C15": dict(design="§5 C15", text="Lean: tag walk and conversion total; tagged non-string key is an error; tagged key descends and pushes nested paths first; single-entry tagged mapping and tagged sequence item parse. Run: block YAML printed from random marked trees (quoted/plain keys, all core scalar types, tags on keys at any depth / below tagged keys / in single-entry mappings / on string items) through parse_yaml vs (plain claims, set of pointers) and the model, then Issuer::iter_disclosable + encode + Holder::verify.", note="YAML text -> serde_yaml::Value is trusted. "),
 "C16": dict(design="§5 C16", text="Lean: C16_header - for every header record and every member name, the returned JSON has the field of that name when set and nothing otherwise; alg names preserved. Run: all 2^9 subsets x 13 algorithms (quick: 2 algorithms full, 11 sampled), random Unicode values and list lengths, through Issuer::header/encode, Holder::verify, Verifier::verify, decode and the wire bytes.", note="jwk field excluded as in the property. "),
}

for _k, _v in CLAIMED.items():
    _v.setdefault("partial", False)
    _v["note"] = COMMON_NOTE + _v["note"]
    _v["tech"] = TECH

REASON_PENDING = "check under construction in this session: model and correspondence exist in part; not yet registered"

ALL = [f"C{n:02d}" for n in range(1, 17)]

def main():
    checks = []
    for pid in ALL:
        if pid not in CLAIMED:
            continue
        c = CLAIMED[pid]
        checks.append({
            "property_id": pid,
            "quick_cmd": f"./check {pid} --tier quick",
            "thorough_cmd": f"./check {pid} --tier thorough",
            "evidence_file": f"/verif/evidence/{pid}.json",
            "replay_cmd_template": f"./check {pid} --replay {{path}}",
            "engine": "lean-proof+correspondence",
            "level_claimed": {"category": "proof", "text": c["text"], "design_ref": c["design"]},
            "level_note": c["note"],
            "technique": c["tech"],
        })
    manifest = {
        "version": 1,
        "setup_cmd": "cd /verif/lean && lake build SdJwt driver && cd /verif/harness && cp /repo/Cargo.lock Cargo.lock && CARGO_NET_OFFLINE=true cargo build --release --offline",
        "hooks": {
            "guard": "robjsliwa_sd_jwt_verif",
            "enable": "no source hooks are needed: the harness drives the public API only; the guard name is reserved (RUSTFLAGS='--cfg robjsliwa_sd_jwt_verif') and unused",
            "baseline_off_cmd": "cd /repo && cargo test --workspace --no-fail-fast --offline",
            "source_commits": [],
            "add_only": True,
        },
        "engines": [
            {"name": "lean-proof+correspondence", "path": "/verif/check",
             "serves_properties": [c["property_id"] for c in checks],
             "kind_free_text": "Lean 4 theorems over a hand-written executable model (lean/SdJwt), re-checked on every run with an axiom audit; Rust harness (harness/) linking the real crate from /repo's working tree, piping cases to the compiled Lean driver and reporting real-vs-model, real-vs-spec and model-vs-spec differences separately"},
        ],
        "checks": checks,
        "notes": "See DESIGN.md. Genuine defects found on the pinned tree were repaired by `fix:` commits in /repo (listed in known_findings.json under `fixed`); D21 (dependency) is a known finding.",
        "not_applicable": [{"property_id": p, "reason": REASON_PENDING} for p in ALL if p not in CLAIMED],
    }
    json.dump(manifest, open(os.path.join(os.path.dirname(os.path.abspath(__file__)), "MANIFEST.json"), "w"), indent=1)

if __name__ == "__main__":
    main()
